//! C14 — messages arrive within the configured latency window, in order on
//! equal latency.
//!
//! History: every message carries the sender's sim_elapsed at the send call and
//! a per-flow sequence number; receivers parked in recv log sim_elapsed at
//! receipt; the controller logs every latency setter call (between steps).
//! Oracle: min - tick <= t_recv - t_send <= max + tick with (min,max) taken from
//! a model of the setter calls made before the send's step; every message is
//! delivered; per flow, messages sent under the same fixed latency arrive in
//! send order.

use crate::rec::{self, Log};
use crate::util::{self, epoch, ns};
use serde_json::json;
use std::collections::BTreeMap;
use std::net::IpAddr;
use std::time::Duration;
use tokio::io::{AsyncReadExt, AsyncWriteExt};
use turmoil::net::{TcpListener, TcpStream, UdpSocket};
use vcore::{Ctx, Finish, Fnv, Rng, RunOpts, ScenarioOut};

#[derive(Clone, Debug)]
enum Sel {
    Name(usize),
    Ip(usize),
    Regex(Vec<usize>),
}

#[derive(Clone, Debug)]
enum Setter {
    GlobalMax(u64),
    Curve(u32),
    LinkFixed(Sel, Sel, u64),
    LinkMax(Sel, Sel, u64),
}

#[derive(Clone, Debug)]
struct Flow {
    from: usize,
    to: usize,
    tcp: bool,
    start_ms: u64,
    bursts: Vec<(u64, u32)>, // (gap ms before burst, messages)
}

#[derive(Clone, Debug)]
struct Scn {
    tick_ms: u64,
    min_ms: u64,
    max_ms: u64,
    lambda10: u32,
    random_order: bool,
    v6: bool,
    rng_seed: u64,
    nhosts: usize,
    flows: Vec<Flow>,
    setters: Vec<(u64, Setter)>, // applied after step k (k = 0: before first step)
    steps: u64,
}

#[derive(Clone, Debug)]
enum Ev {
    Sent { flow: usize, seq: u64, t: u64 },
    Recv { flow: usize, seq: u64, t_send: u64, t: u64 },
    Err { flow: usize, what: String },
}

fn sel(r: &mut Rng, n: usize) -> Sel {
    match r.below(4) {
        0 => Sel::Ip(r.usize_below(n)),
        1 => {
            let mut v: Vec<usize> = (0..n).filter(|_| r.coin()).collect();
            if v.is_empty() {
                v.push(r.usize_below(n));
            }
            Sel::Regex(v)
        }
        _ => Sel::Name(r.usize_below(n)),
    }
}

fn sel_hosts(s: &Sel) -> Vec<usize> {
    match s {
        Sel::Name(i) | Sel::Ip(i) => vec![*i],
        Sel::Regex(v) => v.clone(),
    }
}

/// Model of the latency configuration: global (min,max) and per-link override.
#[derive(Clone)]
struct Model {
    gmin: u64,
    gmax: u64,
    link: BTreeMap<(usize, usize), (u64, u64)>,
}

impl Model {
    fn key(a: usize, b: usize) -> (usize, usize) {
        (a.min(b), a.max(b))
    }
    fn get(&self, a: usize, b: usize) -> (u64, u64) {
        self.link.get(&Self::key(a, b)).copied().unwrap_or((self.gmin, self.gmax))
    }
    fn apply(&mut self, s: &Setter) {
        match s {
            Setter::GlobalMax(v) => self.gmax = *v,
            Setter::Curve(_) => {}
            Setter::LinkFixed(a, b, v) => {
                for x in sel_hosts(a) {
                    for y in sel_hosts(b) {
                        if x != y {
                            self.link.insert(Self::key(x, y), (*v, *v));
                        }
                    }
                }
            }
            Setter::LinkMax(a, b, v) => {
                for x in sel_hosts(a) {
                    for y in sel_hosts(b) {
                        if x != y {
                            let (mn, _) = self.get(x, y);
                            self.link.insert(Self::key(x, y), (mn, *v));
                        }
                    }
                }
            }
        }
    }
}

fn gen(seed: u64) -> Scn {
    let mut r = Rng::new(seed);
    let tick_ms = r.pick_copy(&[1u64, 2, 5, 10, 50, 1, 5]);
    let min_ms = r.pick_copy(&[0u64, 0, 1, 3, 10, 20]);
    let max_ms = min_ms + r.pick_copy(&[0u64, 1, 5, 20, 100]);
    let nhosts = r.range(2, 4) as usize;
    let steps = r.range(30, 120);
    let horizon_ms = steps * tick_ms;
    let mut flows = vec![];
    for _ in 0..r.range(1, 5) {
        let from = r.usize_below(nhosts);
        let mut to = r.usize_below(nhosts);
        if to == from {
            to = (from + 1) % nhosts;
        }
        let mut bursts = vec![];
        let mut t = 0;
        for _ in 0..r.range(1, 8) {
            let gap = r.range(0, (horizon_ms / 6).max(1));
            t += gap;
            if t > horizon_ms * 3 / 4 {
                break;
            }
            bursts.push((gap, r.range(1, 12) as u32));
        }
        flows.push(Flow {
            from,
            to,
            tcp: r.chance(0.35),
            start_ms: r.range(0, 7),
            bursts,
        });
    }
    // setter schedule, validated against a running model so max >= min always
    let mut model = Model {
        gmin: min_ms,
        gmax: max_ms,
        link: BTreeMap::new(),
    };
    let mut setters = vec![];
    let mut k = 0u64;
    for _ in 0..r.range(0, 5) {
        k += if setters.is_empty() && r.chance(0.4) { 0 } else { r.range(1, steps / 3) };
        if k >= steps {
            break;
        }
        let s = match r.below(6) {
            0 => Setter::GlobalMax(model.gmin + r.pick_copy(&[0u64, 2, 9, 40])),
            1 => Setter::Curve(r.pick_copy(&[5u32, 50, 500])),
            2 | 3 => Setter::LinkFixed(sel(&mut r, nhosts), sel(&mut r, nhosts), r.pick_copy(&[0u64, 1, 2, 7, 25, 60])),
            _ => {
                let a = sel(&mut r, nhosts);
                let b = sel(&mut r, nhosts);
                // value must be >= every affected link's current min
                let mut mn = 0;
                for x in sel_hosts(&a) {
                    for y in sel_hosts(&b) {
                        if x != y {
                            mn = mn.max(model.get(x, y).0);
                        }
                    }
                }
                Setter::LinkMax(a, b, mn + r.pick_copy(&[0u64, 3, 15, 50]))
            }
        };
        model.apply(&s);
        setters.push((k, s));
    }
    Scn {
        tick_ms,
        min_ms,
        max_ms,
        lambda10: r.pick_copy(&[5u32, 50, 500]),
        random_order: r.coin(),
        v6: r.chance(0.25),
        rng_seed: r.next_u64(),
        nhosts,
        flows,
        setters,
        steps,
    }
}

fn hname(i: usize) -> String {
    format!("h{i}")
}

fn encode(flow: usize, seq: u64, t: u64) -> [u8; 24] {
    let mut b = [0u8; 24];
    b[..8].copy_from_slice(&(flow as u64).to_le_bytes());
    b[8..16].copy_from_slice(&seq.to_le_bytes());
    b[16..].copy_from_slice(&t.to_le_bytes());
    b
}
fn decode(b: &[u8]) -> (usize, u64, u64) {
    (
        u64::from_le_bytes(b[..8].try_into().unwrap()) as usize,
        u64::from_le_bytes(b[8..16].try_into().unwrap()),
        u64::from_le_bytes(b[16..24].try_into().unwrap()),
    )
}

fn now_ns() -> u64 {
    ns(turmoil::sim_elapsed().expect("in host"))
}

async fn sender(log: Log<Ev>, fi: usize, f: Flow, tick: Duration, stop_step: u64) {
    let any = |v6: bool| if v6 { "::" } else { "0.0.0.0" };
    let v6 = turmoil::lookup(hname(f.to)).is_ipv6();
    // receivers on every host bind during step 1; start strictly later
    tokio::time::sleep(Duration::from_millis(f.start_ms) + 2 * tick).await;
    let mut seq = 0u64;
    if f.tcp {
        let mut s = match TcpStream::connect((hname(f.to), 9001)).await {
            Ok(s) => s,
            Err(e) => {
                log.push(Ev::Err { flow: fi, what: format!("connect: {e}") });
                return;
            }
        };
        for (gap, n) in &f.bursts {
            tokio::time::sleep(Duration::from_millis(*gap)).await;
            for _ in 0..*n {
                if rec::step() > stop_step {
                    break;
                }
                let t = now_ns();
                // one write = one segment; capacity is far above what is in flight
                match s.try_write(&encode(fi, seq, t)) {
                    Ok(24) => log.push(Ev::Sent { flow: fi, seq, t }),
                    other => log.push(Ev::Err { flow: fi, what: format!("try_write: {other:?}") }),
                }
                seq += 1;
            }
        }
        let _ = s.shutdown().await;
        // keep the stream alive until the end of the run
        std::future::pending::<()>().await;
    } else {
        let sock = UdpSocket::bind((any(v6), 0)).await.expect("bind");
        for (gap, n) in &f.bursts {
            tokio::time::sleep(Duration::from_millis(*gap)).await;
            for _ in 0..*n {
                if rec::step() > stop_step {
                    break;
                }
                let t = now_ns();
                match sock.send_to(&encode(fi, seq, t), (hname(f.to), 9000)).await {
                    Ok(_) => log.push(Ev::Sent { flow: fi, seq, t }),
                    Err(e) => log.push(Ev::Err { flow: fi, what: format!("send_to: {e}") }),
                }
                seq += 1;
            }
        }
        std::future::pending::<()>().await;
    }
}

async fn host_program(log: Log<Ev>, me: usize, flows: Vec<Flow>, v6: bool, tick: Duration, stop_step: u64) -> turmoil::Result {
    let any = if v6 { "::" } else { "0.0.0.0" };
    // receivers first (parked for the whole run)
    let udp = UdpSocket::bind((any, 9000)).await?;
    let l2 = log.clone();
    tokio::task::spawn_local(async move {
        let mut buf = [0u8; 64];
        loop {
            match udp.recv_from(&mut buf).await {
                Ok((24, _)) => {
                    let (flow, seq, t_send) = decode(&buf[..24]);
                    l2.push(Ev::Recv { flow, seq, t_send, t: now_ns() });
                }
                other => l2.push(Ev::Err { flow: usize::MAX, what: format!("recv_from: {other:?}") }),
            }
        }
    });
    let listener = TcpListener::bind((any, 9001)).await?;
    let l3 = log.clone();
    tokio::task::spawn_local(async move {
        loop {
            let Ok((mut s, _)) = listener.accept().await else { break };
            let l4 = l3.clone();
            tokio::task::spawn_local(async move {
                let mut buf = [0u8; 24];
                loop {
                    match s.read_exact(&mut buf).await {
                        Ok(_) => {
                            let (flow, seq, t_send) = decode(&buf);
                            l4.push(Ev::Recv { flow, seq, t_send, t: now_ns() });
                        }
                        Err(_) => break, // EOF after shutdown
                    }
                }
            });
        }
    });
    for (fi, f) in flows.iter().enumerate() {
        if f.from == me {
            tokio::task::spawn_local(sender(log.clone(), fi, f.clone(), tick, stop_step));
        }
    }
    std::future::pending::<()>().await;
    Ok(())
}

fn apply_setter(sim: &turmoil::Sim<'_>, ips: &[IpAddr], s: &Setter) {
    fn re(v: &[usize]) -> regex::Regex {
        let alt: Vec<String> = v.iter().map(|i| format!("h{i}")).collect();
        regex::Regex::new(&format!("^({})$", alt.join("|"))).unwrap()
    }
    // dispatch over the three selector kinds on both sides
    macro_rules! with_sel {
        ($sel:expr, $ips:expr, |$x:ident| $body:expr) => {
            match $sel {
                Sel::Name(i) => {
                    let $x = hname(*i);
                    $body
                }
                Sel::Ip(i) => {
                    let $x = $ips[*i];
                    $body
                }
                Sel::Regex(v) => {
                    let $x = re(v);
                    $body
                }
            }
        };
    }
    match s {
        Setter::GlobalMax(v) => sim.set_max_message_latency(Duration::from_millis(*v)),
        Setter::Curve(l) => sim.set_message_latency_curve(*l as f64 / 10.0),
        Setter::LinkFixed(a, b, v) => {
            // a selector pair that resolves to no distinct pair is a no-op
            with_sel!(a, ips, |x| with_sel!(b, ips, |y| sim.set_link_latency(x, y, Duration::from_millis(*v))))
        }
        Setter::LinkMax(a, b, v) => {
            with_sel!(a, ips, |x| with_sel!(b, ips, |y| sim.set_link_max_message_latency(x, y, Duration::from_millis(*v))))
        }
    }
}

fn scenario(s: Scn) -> ScenarioOut {
    let mut out = ScenarioOut::default();
    let log: Log<Ev> = Log::new();
    rec::set_step(0);
    let mut b = turmoil::Builder::new();
    b.tick_duration(Duration::from_millis(s.tick_ms))
        .epoch(epoch(0))
        .rng_seed(s.rng_seed)
        .min_message_latency(Duration::from_millis(s.min_ms))
        .max_message_latency(Duration::from_millis(s.max_ms))
        .tcp_capacity(100_000)
        .udp_capacity(100_000)
        .simulation_duration(Duration::from_secs(1_000_000));
    if s.random_order {
        b.enable_random_order();
    }
    if s.v6 {
        b.ip_version(turmoil::IpVersion::V6);
    }
    let mut sim = b.build();
    sim.set_message_latency_curve(s.lambda10 as f64 / 10.0);
    for i in 0..s.nhosts {
        let log = log.clone();
        let flows = s.flows.clone();
        let v6 = s.v6;
        let tick = Duration::from_millis(s.tick_ms);
        let stop_step = s.steps;
        sim.host(hname(i), move || host_program(log.clone(), i, flows.clone(), v6, tick, stop_step));
    }
    let ips: Vec<IpAddr> = (0..s.nhosts).map(|i| sim.lookup(hname(i))).collect();
    // model as a function of the step: settings in force for sends made in step n
    let mut model = Model {
        gmin: s.min_ms,
        gmax: s.max_ms,
        link: BTreeMap::new(),
    };
    let mut model_at: Vec<Model> = vec![model.clone()]; // index = step
    let mut worst_max = s.max_ms;
    let drain = |m: u64| (m / s.tick_ms) + 4;
    let mut n = 0u64;
    let mut total = s.steps;
    while n < total {
        for (k, st) in &s.setters {
            if *k == n {
                apply_setter(&sim, &ips, st);
                model.apply(st);
                out.count("setter_calls", 1);
                out.saw("setter_kinds", format!("{st:?}").split('(').next().unwrap().to_string());
            }
        }
        worst_max = worst_max.max(model.gmax).max(model.link.values().map(|v| v.1).max().unwrap_or(0));
        if n + 1 == s.steps {
            total = s.steps + drain(worst_max);
        }
        n += 1;
        model_at.push(model.clone());
        if let Err(e) = util::step(&mut sim) {
            out.discarded = Some(format!("step error: {e}"));
            return out;
        }
    }
    drop(sim);
    let evs = log.take();
    let tick = s.tick_ms * 1_000_000;
    let desc = json!({"scenario": format!("{s:?}")});
    // index sends
    let mut sent: BTreeMap<(usize, u64), (u64, u64)> = BTreeMap::new(); // -> (step, t)
    let mut recvd: BTreeMap<(usize, u64), u32> = BTreeMap::new();
    let mut order: BTreeMap<(usize, u64), Vec<u64>> = BTreeMap::new(); // (flow, fixed d) -> seqs in receive order
    for (step, e) in &evs {
        match e {
            Ev::Sent { flow, seq, t } => {
                sent.insert((*flow, *seq), (*step, *t));
            }
            Ev::Err { flow, what } => {
                out.violate(
                    "api-error",
                    format!("C14|api-error|{}", what.split(':').next().unwrap_or("")),
                    format!("flow {flow}: unexpected error on a healthy link: {what}"),
                    desc.clone(),
                );
            }
            _ => {}
        }
    }
    let mut tcp_deadline: BTreeMap<usize, u64> = BTreeMap::new();
    for (_, e) in &evs {
        if let Ev::Recv { flow, seq, t_send, t } = e {
            *recvd.entry((*flow, *seq)).or_default() += 1;
            let Some((sstep, st)) = sent.get(&(*flow, *seq)) else {
                out.violate("phantom", "C14|phantom".into(), format!("flow {flow} seq {seq} received but never sent"), desc.clone());
                continue;
            };
            debug_assert_eq!(st, t_send);
            let f = &s.flows[*flow];
            let (mn, mx) = model_at[*sstep as usize].get(f.from, f.to);
            // signed: host clocks inside one step are not synchronised, a
            // zero-latency message can be received at an earlier local reading
            let d = *t as i64 - *t_send as i64;
            out.count("messages_measured", 1);
            out.count(if f.tcp { "tcp_messages" } else { "udp_messages" }, 1);
            let lo = (mn * 1_000_000) as i64 - tick as i64;
            // TCP delivers in order: a segment can be held back by an earlier
            // segment of the same stream that was given a larger latency, so its
            // bound is the latest deadline of any segment up to and including it
            let own_deadline = *t_send + mx * 1_000_000;
            let deadline = if f.tcp {
                let e = tcp_deadline.entry(*flow).or_insert(0u64);
                *e = (*e).max(own_deadline);
                *e
            } else {
                own_deadline
            };
            let overridden = model_at[*sstep as usize].link.contains_key(&Model::key(f.from, f.to));
            if overridden {
                out.count("messages_under_link_override", 1);
            }
            if d < lo || *t > deadline + tick {
                let class = if d < lo { "too-early" } else { "too-late" };
                out.violate(
                    class,
                    format!("C14|{class}|override={overridden}|tcp={}", f.tcp),
                    format!(
                        "flow {flow} ({}->{} {}) seq {seq}: sent at {} ns (step {sstep}), received at {} ns: delay {} ns outside [{} - tick, {} + tick] ms, tick {} ms",
                        f.from, f.to, if f.tcp { "tcp" } else { "udp" }, t_send, t, d, mn, mx, s.tick_ms
                    ),
                    desc.clone(),
                );
            }
            if mn == mx {
                order.entry((*flow, mn)).or_default().push(*seq);
                out.count("messages_under_fixed_latency", 1);
            }
        }
    }
    for ((flow, d), seqs) in &order {
        if seqs.windows(2).any(|w| w[0] >= w[1]) {
            out.violate(
                "reordered-equal-latency",
                format!("C14|reordered|tcp={}", s.flows[*flow].tcp),
                format!("flow {flow}: messages sent under fixed latency {d} ms received out of send order: {:?}", vcore::excerpt(seqs, 20)),
                desc.clone(),
            );
        }
    }
    for ((flow, seq), (sstep, _)) in &sent {
        match recvd.get(&(*flow, *seq)) {
            None => out.violate(
                "lost",
                format!("C14|lost|tcp={}", s.flows[*flow].tcp),
                format!("flow {flow} seq {seq} sent in step {sstep} on a healthy link was never received ({} steps run)", total),
                desc.clone(),
            ),
            Some(1) => {}
            Some(k) => out.violate("duplicate", "C14|duplicate".into(), format!("flow {flow} seq {seq} received {k} times"), desc.clone()),
        }
    }
    out.saw("tick_ms", s.tick_ms.to_string());
    let measured = recvd.len();
    let mut h = Fnv::new();
    h.write_str(&format!("{:?}", s.setters));
    for (st, e) in &evs {
        if let Ev::Recv { flow, seq, t, .. } = e {
            h.write_u64(*st);
            h.write_u64(*flow as u64);
            h.write_u64(*seq);
            h.write_u64(*t);
        }
    }
    out.digest = h.finish();
    out.nontrivial = measured >= 20 && !s.setters.is_empty();
    out.sample = Some(json!({
        "tick_ms": s.tick_ms, "min_ms": s.min_ms, "max_ms": s.max_ms, "hosts": s.nhosts,
        "flows": s.flows.iter().map(|f| format!("{f:?}")).collect::<Vec<_>>(),
        "setters": s.setters.iter().map(|f| format!("{f:?}")).collect::<Vec<_>>(),
        "received": evs.iter().filter(|e| matches!(e.1, Ev::Recv{..})).take(5).map(|e| format!("step {}: {:?}", e.0, e.1)).collect::<Vec<_>>(),
    }));
    out
}


/// Directed scenarios for ticks that are not a whole number of milliseconds ("for all tick
/// durations"): a fixed-latency link, stamped datagrams, the same window as everywhere else.
fn fractional_tick_scenario(tick_us: u64) -> ScenarioOut {
    use std::cell::RefCell;
    use std::rc::Rc;
    let mut out = ScenarioOut::default();
    let lat_ms = 10u64;
    rec::set_step(0);
    let mut b = turmoil::Builder::new();
    b.tick_duration(Duration::from_micros(tick_us))
        .epoch(epoch(0))
        .rng_seed(tick_us)
        .min_message_latency(Duration::from_millis(lat_ms))
        .max_message_latency(Duration::from_millis(lat_ms))
        .simulation_duration(Duration::from_secs(1000));
    let mut sim = b.build();
    let delays: Rc<RefCell<Vec<i128>>> = Rc::new(RefCell::new(vec![]));
    let d2 = delays.clone();
    sim.host("rx", move || {
        let d2 = d2.clone();
        async move {
            let s = UdpSocket::bind(("0.0.0.0", 9000)).await?;
            let mut b = [0u8; 16];
            loop {
                if let Ok((8, _)) = s.recv_from(&mut b).await {
                    let sent = u64::from_le_bytes(b[..8].try_into().unwrap()) as i128;
                    let now = ns(turmoil::sim_elapsed().unwrap()) as i128;
                    d2.borrow_mut().push(now - sent);
                }
            }
        }
    });
    sim.client("tx", async move {
        let s = UdpSocket::bind(("0.0.0.0", 9001)).await?;
        tokio::time::sleep(Duration::from_millis(3)).await;
        for _ in 0..12 {
            let t = ns(turmoil::sim_elapsed().unwrap());
            s.send_to(&t.to_le_bytes(), ("rx", 9000)).await?;
            tokio::time::sleep(Duration::from_millis(2)).await;
        }
        tokio::time::sleep(Duration::from_millis(3 * lat_ms)).await;
        Ok(())
    });
    let r = sim.run();
    drop(sim);
    let desc = json!({"family": "fractional-tick", "tick_us": tick_us, "latency_ms": lat_ms});
    if let Err(e) = r {
        out.discarded = Some(format!("run failed: {e}"));
        return out;
    }
    let tick_ns = tick_us as i128 * 1000;
    let (lo, hi) = (lat_ms as i128 * 1_000_000 - tick_ns, lat_ms as i128 * 1_000_000 + tick_ns);
    let ds = delays.borrow().clone();
    out.count("fractional_tick_messages_measured", ds.len() as u64);
    out.saw("fractional_ticks_us", tick_us.to_string());
    let bad: Vec<i128> = ds.iter().copied().filter(|d| *d < lo || *d > hi).collect();
    if !bad.is_empty() || ds.len() != 12 {
        out.violate(
            "latency-window",
            format!("C14|latency-window|tick_us={tick_us}|"),
            format!("tick {tick_us} us, fixed latency {lat_ms} ms: {} of {} datagrams arrived, delays in virtual time (ns) outside [{lo}, {hi}]: {:?}", ds.len(), 12, vcore::excerpt(&bad, 4)),
            desc.clone(),
        );
    }
    out.digest = vcore::digest_str(&format!("frac{tick_us}{ds:?}"));
    out.nontrivial = ds.len() >= 10;
    out.sample = Some(desc);
    out
}

pub fn run(ctx: &Ctx) -> ! {
    if ctx.replay.is_some() {
        let w = vcore::read_replay(ctx).expect("replay file");
        let report = if let Some(t) = w.get("tick_us").and_then(|x| x.as_u64()) {
            vcore::run_single(ctx, move |_| fractional_tick_scenario(t))
        } else {
            let seed = w["scenario_seed"].as_u64().unwrap_or(0);
            vcore::run_single(ctx, move |_| scenario(gen(seed)))
        };
        vcore::finish(ctx, report, fin());
    }
    let n = ctx.pick(60_000, 1_000_000);
    let c2 = ctx.clone();
    let report = vcore::run_parallel(
        ctx,
        n,
        RunOpts {
            budget_s: ctx.pick(60.0, 600.0),
            scenario_timeout_s: 120.0,
        },
        move |idx| {
            // the first scenarios are directed: ticks that are not whole milliseconds, and one that is
            const FRACTIONAL: [u64; 5] = [500, 1500, 2500, 100, 2000];
            if (idx as usize) < FRACTIONAL.len() {
                return fractional_tick_scenario(FRACTIONAL[idx as usize]);
            }
            let seed = c2.scenario_seed("c14", idx);
            let mut out = scenario(gen(seed));
            for v in out.violations.iter_mut() {
                v.witness["scenario_seed"] = json!(seed);
            }
            out
        },
    );
    vcore::finish(ctx, report, fin());
}

fn fin() -> Finish<'static> {
    Finish {
        level: "exploration",
        rule: "five directed scenarios with ticks of 0.1 / 0.5 / 1.5 / 2 / 2.5 ms on a fixed 10 ms link, then seeded scenarios: tick in {1,2,5,10,50 ms}, global min/max latency and curve, 2-4 hosts, 1-5 UDP/TCP flows sending stamped bursts at ms-granular instants inside steps, 0-5 latency setter calls (global max, curve, per-link fixed / max by name, IP, regex) between steps; non-trivial = >=20 measured messages and >=1 setter call; distinct = digest of (setters, all receipts with virtual times)",
        assumptions: vec![
            "receivers are parked in recv for the whole run, so receipt time = delivery turn".into(),
            "max < min configurations are never generated (documented panic)".into(),
            "fail_rate = 0 (healthy links)".into(),
        ],
        min_distinct: 50,
        required_counters: vec!["messages_measured", "messages_under_link_override", "messages_under_fixed_latency", "tcp_messages", "udp_messages", "fractional_tick_messages_measured"],
    }
}
