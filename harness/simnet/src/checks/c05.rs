//! C05 — virtual clocks advance exactly one tick per step and agree.
//!
//! Monitor: clock-sample arithmetic. Programs sample (elapsed, sim_elapsed,
//! since_epoch, tokio Instant) before/after every sleep / timeout / interval
//! tick; the controller samples Sim::elapsed / Sim::since_epoch after every Ok
//! step. The oracle is pure arithmetic on the harness's own step counter.

use crate::rec::{self, Log};
use crate::util::{self, epoch, ns};
use serde_json::json;
use std::cell::Cell;
use std::rc::Rc;
use std::time::Duration;
use tokio::time::Instant;
use vcore::{Ctx, Finish, Fnv, Rng, RunOpts, ScenarioOut};

#[derive(Clone, Debug)]
enum Op {
    Sleep(u64),
    Timeout(u64),
    Interval(u64, u32),
    Yield,
}

#[derive(Clone, Debug)]
struct HostSpec {
    name: String,
    is_client: bool,
    /// register after this many steps (0 = before first step)
    register_at: u64,
    tasks: Vec<Vec<Op>>,
    /// hosts loop their script forever; clients run it `rounds` times
    rounds: u32,
    /// host software that returns Ok after `rounds` rounds (its clock must keep
    /// counting while it is finished; a later bounce shows it)
    finite_host: bool,
}

#[derive(Clone, Debug)]
enum Act {
    Crash(usize),
    Bounce(usize),
}

#[derive(Clone, Debug)]
struct Scn {
    tick_us: u64,
    epoch_off: u64,
    /// use exactly UNIX_EPOCH as the configured epoch
    epoch_zero: bool,
    random_order: bool,
    rng_seed: u64,
    hosts: Vec<HostSpec>,
    steps: u64,
    acts: Vec<(u64, Act)>, // executed before step index (1-based)
    /// simulation_duration in microseconds (None = far beyond the run); when clients are still
    /// running past it `step` returns Err but must have advanced every clock all the same
    duration_us: Option<u64>,
}

#[derive(Clone, Debug)]
struct Sample {
    host: usize,
    inc: u32,
    task: usize,
    /// op index within the task run, phase 0 = before, 1 = after, 2.. = interval tick k
    opi: u32,
    phase: u32,
    elapsed: u64,
    sim_elapsed: u64,
    since_epoch: u64,
    inst: u64,
    /// modification time (ns since UNIX_EPOCH) of a file written at this instant
    fs_mtime: Option<u64>,
}

fn gen(seed: u64, force_tick_us: Option<u64>) -> Scn {
    let mut r = Rng::new(seed);
    let ticks = [1000u64, 2000, 3000, 5000, 7000, 10_000, 50_000, 1000, 5000, 500, 1500, 2500];
    let tick_us = force_tick_us.unwrap_or_else(|| r.pick_copy(&ticks));
    let nh = r.range(1, 4) as usize;
    let mut hosts = vec![];
    let steps = r.range(20, 90);
    let mut any_client_initial = false;
    for i in 0..nh {
        let is_client = r.chance(0.4);
        let register_at = if r.chance(0.3) { r.range(1, steps / 2) } else { 0 };
        let nt = r.range(1, 3) as usize;
        let mut tasks = vec![];
        for _ in 0..nt {
            let nops = r.range(1, 5) as usize;
            let mut ops = vec![];
            for _ in 0..nops {
                ops.push(match r.below(10) {
                    0..=4 => Op::Sleep(r.range(1, 23)),
                    5..=6 => Op::Timeout(r.range(1, 23)),
                    7..=8 => Op::Interval(r.range(1, 9), r.range(2, 5) as u32),
                    _ => Op::Yield,
                });
            }
            // at least one timer per task so loops always advance time
            if !ops.iter().any(|o| !matches!(o, Op::Yield)) {
                ops.push(Op::Sleep(r.range(1, 23)));
            }
            tasks.push(ops);
        }
        any_client_initial |= is_client && register_at == 0;
        hosts.push(HostSpec {
            name: format!("n{i}"),
            is_client,
            register_at,
            tasks,
            rounds: r.range(1, 4) as u32,
            finite_host: !is_client && r.chance(0.35),
        });
    }
    let _ = any_client_initial;
    // crash/bounce schedule on hosts (not clients)
    let mut acts = vec![];
    for (i, h) in hosts.iter().enumerate() {
        if h.is_client {
            continue;
        }
        let mut s = h.register_at + 1;
        let mut down = false;
        while s < steps && r.chance(0.6) {
            s += r.range(1, 15);
            if s >= steps {
                break;
            }
            if down && r.chance(0.3) {
                // crashing a host that is already down must not disturb its clock
                acts.push((s, Act::Crash(i)));
            } else if down {
                acts.push((s, Act::Bounce(i)));
                down = false;
            } else if r.chance(0.75) {
                acts.push((s, Act::Crash(i)));
                down = true;
            } else {
                acts.push((s, Act::Bounce(i)));
            }
        }
    }
    for (i, h) in hosts.iter().enumerate() {
        if h.finite_host {
            let at = (h.register_at + steps) / 2 + r.range(1, steps / 3);
            if at < steps {
                acts.push((at, Act::Bounce(i)));
            }
        }
    }
    acts.sort_by_key(|a| a.0);
    Scn {
        tick_us,
        epoch_off: r.below(1_000_000),
        epoch_zero: r.chance(0.1),
        random_order: r.coin(),
        rng_seed: r.next_u64(),
        hosts,
        steps,
        acts,
        duration_us: if r.chance(0.25) { Some(r.range(s_tick(tick_us), steps * tick_us)) } else { None },
    }
}

fn s_tick(t: u64) -> u64 {
    t / 2 + 1
}

fn sample(log: &Log<Sample>, host: usize, inc: u32, task: usize, opi: u32, phase: u32, t0: Instant) {
    use turmoil::fs::shim::std::fs as sfs;
    let fs_mtime = sfs::write("/clk", b"x")
        .ok()
        .and_then(|_| sfs::metadata("/clk").ok())
        .and_then(|m| m.modified().ok())
        .and_then(|m| m.duration_since(std::time::SystemTime::UNIX_EPOCH).ok())
        .map(ns);
    log.push(Sample {
        fs_mtime,
        host,
        inc,
        task,
        opi,
        phase,
        elapsed: ns(turmoil::elapsed()),
        sim_elapsed: ns(turmoil::sim_elapsed().expect("in host")),
        since_epoch: ns(turmoil::since_epoch().expect("in host")),
        inst: ns(t0.elapsed()),
    });
}

/// Samples the clocks when the task is dropped (by a crash or a bounce): phase 99.
struct SampleOnDrop(Log<Sample>, usize, u32, usize, Instant);
impl Drop for SampleOnDrop {
    fn drop(&mut self) {
        // only inside a host context (dropping the whole Sim tears hosts down outside of one)
        if turmoil::sim_elapsed().is_some() {
            self.0.push(Sample {
                fs_mtime: None,
                host: self.1,
                inc: self.2,
                task: self.3,
                opi: u32::MAX,
                phase: 99,
                elapsed: ns(turmoil::elapsed()),
                sim_elapsed: ns(turmoil::sim_elapsed().unwrap()),
                since_epoch: ns(turmoil::since_epoch().unwrap()),
                // tokio's own clock, as time since this task's incarnation started
                inst: ns(self.4.elapsed()),
            });
        }
    }
}

async fn run_task(log: Log<Sample>, host: usize, inc: u32, task: usize, ops: Vec<Op>, rounds: Option<u32>, t0: Instant) {
    let _on_drop = SampleOnDrop(log.clone(), host, inc, task, t0);
    let mut opi = 0u32;
    let mut round = 0u32;
    loop {
        for op in &ops {
            match op {
                Op::Sleep(d) => {
                    sample(&log, host, inc, task, opi, 0, t0);
                    tokio::time::sleep(Duration::from_millis(*d)).await;
                    sample(&log, host, inc, task, opi, 1, t0);
                }
                Op::Timeout(d) => {
                    sample(&log, host, inc, task, opi, 0, t0);
                    let _ = tokio::time::timeout(Duration::from_millis(*d), std::future::pending::<()>()).await;
                    sample(&log, host, inc, task, opi, 1, t0);
                }
                Op::Interval(p, k) => {
                    let mut iv = tokio::time::interval(Duration::from_millis(*p));
                    for i in 0..*k {
                        iv.tick().await;
                        sample(&log, host, inc, task, opi, 2 + i, t0);
                    }
                }
                Op::Yield => {
                    tokio::task::yield_now().await;
                }
            }
            opi += 1;
        }
        round += 1;
        if let Some(r) = rounds {
            if round >= r {
                break;
            }
        }
    }
}

fn program(
    log: Log<Sample>,
    host: usize,
    inc: u32,
    spec: HostSpec,
) -> impl std::future::Future<Output = turmoil::Result> + 'static {
    async move {
        let t0 = Instant::now();
        let rounds = if spec.is_client || spec.finite_host { Some(spec.rounds) } else { None };
        let mut handles = vec![];
        for (ti, ops) in spec.tasks.iter().enumerate().skip(1) {
            handles.push(tokio::task::spawn_local(run_task(
                log.clone(),
                host,
                inc,
                ti,
                ops.clone(),
                rounds,
                t0,
            )));
        }
        run_task(log.clone(), host, inc, 0, spec.tasks[0].clone(), rounds, t0).await;
        for h in handles {
            let _ = h.await;
        }
        Ok(())
    }
}

struct Exec {
    samples: Vec<(u64, Sample)>,
    /// (step n, Sim::elapsed ns, Sim::since_epoch ns) after each Ok step
    ctl: Vec<(u64, u64, u64)>,
    step_errs: u64,
    past_duration: u64,
}

fn execute(s: &Scn) -> Exec {
    let log: Log<Sample> = Log::new();
    rec::set_step(0);
    let tick = Duration::from_micros(s.tick_us);
    let mut b = turmoil::Builder::new();
    b.tick_duration(tick)
        .epoch(if s.epoch_zero { std::time::SystemTime::UNIX_EPOCH } else { epoch(s.epoch_off) })
        .rng_seed(s.rng_seed)
        .simulation_duration(s.duration_us.map(Duration::from_micros).unwrap_or(Duration::from_secs(100_000)));
    if s.random_order {
        b.enable_random_order();
    }
    let mut sim = b.build();
    let incs: Vec<Rc<Cell<u32>>> = s.hosts.iter().map(|_| Rc::new(Cell::new(0))).collect();
    let register = |sim: &mut turmoil::Sim<'_>, i: usize| {
        let spec = s.hosts[i].clone();
        let log = log.clone();
        if spec.is_client {
            sim.client(spec.name.clone(), program(log, i, 0, spec));
        } else {
            let inc = incs[i].clone();
            sim.host(spec.name.clone(), move || {
                let n = inc.get();
                inc.set(n + 1);
                program(log.clone(), i, n, spec.clone())
            });
        }
    };
    for i in 0..s.hosts.len() {
        if s.hosts[i].register_at == 0 {
            register(&mut sim, i);
        }
    }
    let mut ctl = vec![];
    let mut step_errs = 0;
    let mut past_duration = 0;
    for n in 1..=s.steps {
        // actions scheduled before step n
        for i in 0..s.hosts.len() {
            if s.hosts[i].register_at == n - 1 && n > 1 {
                register(&mut sim, i);
            }
        }
        for (at, a) in &s.acts {
            if *at == n {
                match a {
                    Act::Crash(i) => {
                        if s.hosts[*i].register_at < n {
                            sim.crash(s.hosts[*i].name.as_str())
                        }
                    }
                    Act::Bounce(i) => {
                        if s.hosts[*i].register_at < n {
                            sim.bounce(s.hosts[*i].name.as_str())
                        }
                    }
                }
            }
        }
        match util::step(&mut sim) {
            Ok(_) => ctl.push((n, ns(sim.elapsed()), ns(sim.since_epoch()))),
            // past the configured duration with clients still running: the call reports that,
            // after having advanced every clock like any other step
            Err(e) if s.duration_us.is_some() && e.to_string().starts_with("Ran for duration") => {
                past_duration += 1;
                ctl.push((n, ns(sim.elapsed()), ns(sim.since_epoch())))
            }
            Err(_) => step_errs += 1,
        }
    }
    drop(sim);
    Exec {
        samples: log.take(),
        ctl,
        step_errs,
        past_duration,
    }
}

fn check(s: &Scn, ex: &Exec, out: &mut ScenarioOut) {
    let t = s.tick_us * 1000;
    let ep = if s.epoch_zero { 0 } else { (util::EPOCH_SECS + s.epoch_off) * 1_000_000_000 };
    let whole_ms = s.tick_us % 1000 == 0;
    let desc = || {
        json!({"tick_us": s.tick_us, "scenario": format!("{s:?}")})
    };
    let mut complain = |out: &mut ScenarioOut, class: &str, detail: String, what: String| {
        // identity of the failing case: class + tick (the input that matters) + detail
        let sig = format!("C05|{class}|tick_us={}|{detail}", s.tick_us);
        if out.violations.iter().any(|v| v.signature == sig) {
            return;
        }
        out.violate(class, sig, what, desc());
    };
    // controller clauses
    for (n, el, se) in &ex.ctl {
        out.count("controller_samples", 1);
        if *el != n * t {
            complain(out, "sim-elapsed", String::new(), format!("after {n} steps Sim::elapsed = {el} ns, expected {}", n * t));
        }
        if *se != ep + n * t {
            complain(out, "sim-since-epoch", String::new(), format!("after {n} steps Sim::since_epoch = {se}, expected {}", ep + n * t));
        }
    }
    // per-sample clauses
    let mut last: std::collections::BTreeMap<usize, (u64, u64, u64)> = Default::default();
    for (step, sm) in &ex.samples {
        out.count("host_samples", 1);
        if sm.phase == 99 {
            out.count("clock_samples_taken_by_destructors_during_crash_or_bounce", 1);
            // tokio's clock seen by the destructor agrees with the host clock: the first sample of
            // this (host, incarnation, task) fixes the offset between the two
            if let Some((_, first)) = ex.samples.iter().find(|(_, f)| f.host == sm.host && f.inc == sm.inc && f.task == sm.task && f.phase != 99) {
                let by_host = sm.elapsed as i128 - first.elapsed as i128;
                let by_tokio = sm.inst as i128 - first.inst as i128;
                if whole_ms && by_host != by_tokio {
                    complain(
                        out,
                        "destructor-instant",
                        String::new(),
                        format!("host {} incarnation {}: a destructor run by crash/bounce reads tokio's clock {} ns after the task's first sample, the host clock says {} ns", sm.host, sm.inc, by_tokio, by_host),
                    );
                }
            }
        }
        let n = *step;
        let off = s.hosts[sm.host].register_at * t;
        if sm.sim_elapsed != sm.elapsed + off {
            complain(out, "offset", String::new(), format!("host {} sim_elapsed {} != elapsed {} + registration offset {}", sm.host, sm.sim_elapsed, sm.elapsed, off));
        }
        if sm.since_epoch != ep + sm.sim_elapsed {
            complain(out, "epoch", String::new(), format!("since_epoch {} != epoch {} + sim_elapsed {}", sm.since_epoch, ep, sm.sim_elapsed));
        }
        if n == 0 || sm.sim_elapsed < (n - 1) * t || sm.sim_elapsed > n * t {
            complain(
                out,
                "window",
                String::new(),
                format!("host {} observed sim_elapsed {} ns in step {} (window [{}, {}])", sm.host, sm.sim_elapsed, n, (n.max(1) - 1) * t, n * t),
            );
        }
        if let Some(m) = sm.fs_mtime {
            out.count("file_timestamps_observed", 1);
            if n == 0 || m < ep + (n - 1) * t || m > ep + n * t {
                complain(
                    out,
                    "file-time-window",
                    String::new(),
                    format!("host {} wrote a file in step {} and read back mtime {} ns; the step's window is [{}, {}] (epoch {} + sim time)", sm.host, n, m, ep + (n.max(1) - 1) * t, ep + n * t, ep),
                );
            }
        }
        if let Some((e, se, ep0)) = last.get(&sm.host) {
            if sm.elapsed < *e || sm.sim_elapsed < *se || sm.since_epoch < *ep0 {
                complain(out, "monotone", String::new(), format!("host {} clock went backwards: {} -> {}", sm.host, e, sm.elapsed));
            }
        }
        last.insert(sm.host, (sm.elapsed, sm.sim_elapsed, sm.since_epoch));
    }
    // timer exactness: pair before/after samples of one (host, inc, task, opi)
    let mut open: std::collections::BTreeMap<(usize, u32, usize, u32), &Sample> = Default::default();
    for (_, sm) in &ex.samples {
        if sm.phase == 99 {
            continue;
        }
        let key = (sm.host, sm.inc, sm.task, sm.opi);
        let ops = &s.hosts[sm.host].tasks[sm.task];
        let op = &ops[(sm.opi as usize) % ops.len()];
        match (op, sm.phase) {
            (Op::Sleep(_), 0) | (Op::Timeout(_), 0) => {
                open.insert(key, sm);
            }
            (Op::Sleep(d), 1) | (Op::Timeout(d), 1) => {
                if let Some(b) = open.remove(&key) {
                    out.count("timer_observations", 1);
                    let want = d * 1_000_000;
                    let kind = if matches!(op, Op::Sleep(_)) { "sleep" } else { "timeout" };
                    if sm.elapsed - b.elapsed != want {
                        complain(
                            out,
                            "timer-drift",
                            if whole_ms { format!("{kind}") } else { String::new() },
                            format!("{kind}({d} ms) took {} ns of host elapsed time (tick {} us)", sm.elapsed - b.elapsed, s.tick_us),
                        );
                    }
                    if sm.inst - b.inst != want {
                        complain(out, "timer-instant", format!("{kind}"), format!("{kind}({d} ms) took {} ns by tokio Instant", sm.inst - b.inst));
                    }
                }
            }
            (Op::Interval(p, _), ph) if ph >= 2 => {
                if ph == 2 {
                    open.insert(key, sm);
                } else if let Some(b) = open.get(&key) {
                    out.count("timer_observations", 1);
                    let want = (ph as u64 - 2) * p * 1_000_000;
                    if sm.elapsed - b.elapsed != want {
                        complain(
                            out,
                            "timer-drift",
                            if whole_ms { "interval".to_string() } else { String::new() },
                            format!("interval({p} ms) tick {} at +{} ns of host elapsed time (tick {} us)", ph - 2, sm.elapsed - b.elapsed, s.tick_us),
                        );
                    }
                }
            }
            _ => {}
        }
    }
}

fn scenario(s: Scn) -> ScenarioOut {
    let mut out = ScenarioOut::default();
    let ex = execute(&s);
    check(&s, &ex, &mut out);
    let crashes = s.acts.iter().filter(|a| matches!(a.1, Act::Crash(_))).count() as u64;
    let bounces = s.acts.iter().filter(|a| matches!(a.1, Act::Bounce(_))).count() as u64;
    let late = s.hosts.iter().filter(|h| h.register_at > 0).count() as u64;
    out.count("steps", s.steps);
    out.count("crashes", crashes);
    out.count("bounces", bounces);
    out.count("late_registrations", late);
    out.count("step_errs_outside_oracle", ex.step_errs);
    out.count("steps_past_simulation_duration", ex.past_duration);
    if let Some(d) = s.duration_us {
        if d % s.tick_us != 0 && d < s.steps * s.tick_us {
            out.count("durations_not_a_multiple_of_tick_crossed", 1);
        }
    }
    out.saw("tick_us", s.tick_us.to_string());
    if s.epoch_zero {
        out.count("scenarios_with_epoch_unix_epoch", 1);
    }
    let post_bounce = ex.samples.iter().filter(|(_, sm)| sm.inc > 0).count() as u64;
    out.count("samples_after_bounce", post_bounce);
    let fin_bounced = ex.samples.iter().filter(|(_, sm)| sm.inc > 0 && s.hosts[sm.host].finite_host).count() as u64;
    out.count("samples_after_bounce_of_finished_host", fin_bounced);
    let mut h = Fnv::new();
    h.write_u64(s.tick_us);
    for (st, sm) in &ex.samples {
        h.write_u64(*st);
        h.write_u64(sm.elapsed);
        h.write_u64(sm.host as u64);
    }
    out.digest = h.finish();
    out.nontrivial = ex.samples.len() >= 10 && (crashes + bounces + late) > 0;
    out.sample = Some(json!({
        "tick_us": s.tick_us, "steps": s.steps, "random_order": s.random_order,
        "hosts": s.hosts.iter().map(|h| format!("{h:?}")).collect::<Vec<_>>(),
        "controller_actions": s.acts.iter().map(|a| format!("{a:?}")).collect::<Vec<_>>(),
        "first_samples": ex.samples.iter().take(6).map(|(st, sm)| format!("step {st}: {sm:?}")).collect::<Vec<_>>(),
    }));
    out
}

pub fn run(ctx: &Ctx) -> ! {
    if ctx.replay.is_some() {
        let w = vcore::read_replay(ctx).expect("replay file");
        let seed = w["scenario_seed"].as_u64();
        let tick = w["tick_us"].as_u64();
        let report = vcore::run_single(ctx, move |_| scenario(gen(seed.unwrap_or(0), tick)));
        vcore::finish(ctx, report, fin());
    }
    let n = ctx.pick(30_000, 600_000);
    let c2 = ctx.clone();
    let report = vcore::run_parallel(
        ctx,
        n,
        RunOpts {
            budget_s: ctx.pick(60.0, 600.0),
            scenario_timeout_s: 120.0,
        },
        move |idx| {
            // the first three scenarios are directed: sub-millisecond ticks
            let force = match idx {
                0 => Some(500),
                1 => Some(1500),
                2 => Some(2500),
                _ => None,
            };
            let seed = c2.scenario_seed("c05", idx);
            let mut out = scenario(gen(seed, force));
            for v in out.violations.iter_mut() {
                v.witness["scenario_seed"] = json!(seed);
            }
            out
        },
    );
    vcore::finish(ctx, report, fin());
}

fn fin() -> Finish<'static> {
    Finish {
        level: "exploration",
        rule: "seeded scenarios: tick in {0.5,1,1.5,2,2.5,3,5,7,10,50 ms}, 1-4 hosts/clients (some registered between steps), 1-3 tasks each running sleep/timeout/interval/yield scripts, crash/bounce schedule, random order on/off, simulation_duration far away or anywhere inside the run (not a multiple of the tick), a file written and its mtime read back at every clock sample; non-trivial = >=10 clock samples and >=1 crash/bounce/late registration; distinct = digest of (tick, all samples)",
        assumptions: vec![
            "steps that return Err for another reason than the configured duration are outside the oracle (none are generated)".into(),
            "the step a sample belongs to comes from the harness's own step counter".into(),
        ],
        min_distinct: 20,
        required_counters: vec!["timer_observations", "samples_after_bounce", "samples_after_bounce_of_finished_host", "scenarios_with_epoch_unix_epoch", "controller_samples", "late_registrations", "file_timestamps_observed", "durations_not_a_multiple_of_tick_crossed", "steps_past_simulation_duration", "clock_samples_taken_by_destructors_during_crash_or_bounce"],
    }
}
