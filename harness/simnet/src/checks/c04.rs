//! C04 — a crashed host stops dead, releases everything, and restarts cleanly.
//!
//! A fixed-shape workload (target host with TCP listener + echo handlers, UDP
//! socket with a multicast membership, background tasks, fs activity; peers with
//! parked / mid-transfer / connecting streams and UDP pingers; an isolated pair
//! C<->D) is first run crash-free (the twin). Then the crash is injected after
//! every step c of the run (optionally bounce after d steps, bounce without
//! crash, repeated cycles, two targets selected by regex) and monitors check:
//! destructors ran, no execution / no sends while down, tables empty (hook),
//! peers unblocked in bounded virtual time, traffic that reached the host while
//! it was down is not handed to the new incarnation, the factory runs exactly
//! once per bounce, and the isolated pair's log equals the twin's.

use crate::rec::{self, Log, TraceEv};
use crate::util::{self, epoch};
use serde_json::json;
use std::cell::Cell;
use std::collections::{BTreeMap, BTreeSet};
use std::rc::Rc;
use std::time::Duration;
use tokio::io::{AsyncReadExt, AsyncWriteExt};
use turmoil::fs::shim::std::fs as sfs;
use turmoil::net::{TcpListener, TcpStream, UdpSocket};
use vcore::{Ctx, Finish, Fnv, Rng, RunOpts, ScenarioOut};

#[derive(Clone, Debug)]
enum Inject {
    None,
    Crash { at: u64, bounce_after: Option<u64> },
    BounceOnly { at: u64 },
    Cycles { at: u64, gap: u64, n: u32 },
    /// crash t0 alone, then (gap steps later) crash every target by regex while t0 is already down
    CrashOneThenAll { at: u64, gap: u64 },
    /// bounce (the old incarnation's streams die), then crash `gap` steps later: what the peers
    /// still had in flight towards the old incarnation reaches a host that is down
    BounceThenCrash { at: u64, gap: u64 },
}

#[derive(Clone, Debug)]
struct Scn {
    tick_ms: u64,
    lat_ms: u64,
    rng_seed: u64,
    steps: u64,
    /// two targets t0,t1 selected by regex; peers talk to t0 only
    two_targets: bool,
    accept_gap_ms: u64,
    conn_times: Vec<(u64, u64)>, // (connect at ms, think time between ping-pongs)
    udp_period_ms: u64,
    tcp_cap: usize,
    /// a bulk download from t0 with a slow reader: (connect at ms, gap between reads ms)
    bulk: Option<(u64, u64)>,
    /// the target's echo handlers wait this long before every read: data the peer wrote sits unread
    /// in the target's receive buffer when the crash comes (0 = read eagerly)
    slow_ms: u64,
    /// p1 uploads to t0 over a stream t0 never reads: the writer ends up parked on a full
    /// window (connect at ms)
    upload: Option<u64>,
    /// the target reads the upload as it arrives (nothing unread at the crash, the window is in
    /// flight) instead of never reading it
    upload_drained: bool,
    /// t0 dials p1:7200 itself: (at ms after its start, think time between ping-pongs)
    dials: Vec<(u64, u64)>,
    /// the first dialled stream turns into a download the target never reads: p1 (the ACCEPTING
    /// side of the stream) writes until its writer is parked on the exhausted window
    dial_flood: bool,
    /// Builder::enable_tokio_io, and the target's software uses the IO driver
    tokio_io: bool,
    inject: Inject,
}

#[derive(Clone, Debug)]
enum Ev {
    // target
    TBound { t: usize, inc: u32, tcp: bool, udp: bool, join: bool },
    /// file handles registered in the host's fs when an incarnation starts (nothing is open yet)
    TFds { t: usize, inc: u32, open: usize },
    TAccept { t: usize, inc: u32, peer: String },
    TPing { t: usize, inc: u32, id: u64 },
    // peers
    ConnCall { c: usize },
    ConnOk { c: usize, local: String },
    ConnErr { c: usize, kind: String },
    InRead { c: usize },
    Pong { c: usize },
    BulkRead,
    UpWrote,
    /// p1 accepted a stream dialled by the target
    PAccept { k: usize, peer: String },
    PInRead { k: usize },
    PGot { k: usize },
    /// p1 was asked to flood stream k / completed one write of the flood
    PFlood { k: usize },
    PWrote { k: usize },
    PUnblocked { k: usize, how: String },
    /// target side of a dial
    TDial { t: usize, inc: u32, ok: bool },
    Unblocked { c: usize, how: String },
    PingSent { id: u64, multicast: bool },
    PongRecv { id: u64 },
    // isolated pair
    Iso { who: u8, what: String },
    // controller
    Crash { targets: Vec<usize> },
    CrashReturned,
    Bounce { targets: Vec<usize> },
    BounceReturned,
}

struct Guard(Rc<Cell<i64>>);
impl Guard {
    fn new(c: &Rc<Cell<i64>>) -> Guard {
        c.set(c.get() + 1);
        Guard(c.clone())
    }
}
impl Drop for Guard {
    fn drop(&mut self) {
        self.0.set(self.0.get() - 1);
    }
}

#[derive(Clone, Default)]
struct TProbe {
    /// live task guards, one counter per incarnation
    guards: Rc<std::cell::RefCell<Vec<Rc<Cell<i64>>>>>,
    progress: Rc<Cell<u64>>,
    last_progress_step: Rc<Cell<u64>>,
    factory_calls: Rc<Cell<u32>>,
}

const GROUP: std::net::Ipv4Addr = std::net::Ipv4Addr::new(239, 4, 4, 4);

async fn target_program(log: Log<Ev>, t: usize, inc: u32, p: TProbe, s: Scn) -> turmoil::Result {
    let gc = p.guards.borrow()[inc as usize].clone();
    let _g = Guard::new(&gc);
    let open = turmoil::fs::FsContext::current(|ctx| ctx.fs.open_handles.len());
    log.push(Ev::TFds { t, inc, open });
    let lis = TcpListener::bind(("0.0.0.0", 7000)).await;
    let udp = UdpSocket::bind(("0.0.0.0", 9000)).await;
    let join = udp.as_ref().map(|u| u.join_multicast_v4(GROUP, std::net::Ipv4Addr::UNSPECIFIED).is_ok()).unwrap_or(false);
    log.push(Ev::TBound { t, inc, tcp: lis.is_ok(), udp: udp.is_ok(), join });
    let (Ok(lis), Ok(udp)) = (lis, udp) else {
        std::future::pending::<()>().await;
        return Ok(());
    };
    // background ticker
    {
        let g = Guard::new(&gc);
        let p = p.clone();
        tokio::task::spawn_local(async move {
            let _g = g;
            loop {
                tokio::time::sleep(Duration::from_millis(1)).await;
                p.progress.set(p.progress.get() + 1);
                p.last_progress_step.set(rec::step());
            }
        });
    }
    // fs activity
    {
        let g = Guard::new(&gc);
        let p = p.clone();
        tokio::task::spawn_local(async move {
            let _g = g;
            let _ = sfs::create_dir_all("/data");
            // a buffered writer whose destructor has to flush through the fs, and a plain open file
            let _held = sfs::File::create("/data/held").ok();
            let mut buffered = sfs::File::create("/data/buffered").ok().map(std::io::BufWriter::new);
            if let Some(w) = buffered.as_mut() {
                use std::io::Write;
                let _ = w.write_all(b"buffered record");
            }
            let mut n = 0u64;
            loop {
                let _ = sfs::write(format!("/data/f{}", n % 4), n.to_le_bytes());
                if n % 3 == 0 {
                    if let Ok(f) = sfs::File::open(format!("/data/f{}", n % 4)) {
                        let _ = f.sync_all();
                    }
                }
                n += 1;
                p.progress.set(p.progress.get() + 1);
                tokio::time::sleep(Duration::from_millis(2)).await;
            }
        });
    }
    // io_uring activity (buffers are leaked on purpose: the task dies with operations in flight)
    {
        let g = Guard::new(&gc);
        let p = p.clone();
        tokio::task::spawn_local(async move {
            use std::os::fd::AsRawFd;
            use turmoil::io_uring::{opcode, types, IoUring};
            let _g = g;
            let _ = sfs::create_dir_all("/ring");
            let Ok(file) = sfs::OpenOptions::new().read(true).write(true).create(true).open("/ring/data") else { return };
            let Ok(mut ring) = IoUring::new(4) else { return };
            let fd = types::Fd(file.as_raw_fd());
            let mut n = 0u64;
            loop {
                let buf: &'static mut Vec<u8> = Box::leak(Box::new(n.to_le_bytes().to_vec()));
                let w = opcode::Write::new(fd, buf.as_ptr(), 8).offset((n % 16) * 8).build().user_data(n);
                let f = opcode::Fsync::new(fd).build().user_data(n + 1_000_000);
                unsafe {
                    let _ = ring.submission().push(&w);
                    let _ = ring.submission().push(&f);
                }
                let _ = ring.submit();
                tokio::time::sleep(Duration::from_millis(3)).await;
                let mut cq = ring.completion();
                cq.sync();
                while cq.next().is_some() {
                    p.progress.set(p.progress.get() + 1);
                }
                drop(cq);
                n += 1;
            }
        });
    }
    // udp echo
    {
        let g = Guard::new(&gc);
        let log = log.clone();
        tokio::task::spawn_local(async move {
            let _g = g;
            let mut b = [0u8; 16];
            loop {
                if let Ok((8, from)) = udp.recv_from(&mut b).await {
                    let id = u64::from_le_bytes(b[..8].try_into().unwrap());
                    log.push(Ev::TPing { t, inc, id });
                    let _ = udp.send_to(&b[..8], from).await;
                }
            }
        });
    }
    // the runtime of every incarnation is built the way the simulation was configured
    let _io_pair = if s.tokio_io {
        let (mut a, mut b) = tokio::net::UnixStream::pair()?;
        a.write_all(b"x").await?;
        let mut one = [0u8; 1];
        b.read_exact(&mut one).await?;
        Some((a, b))
    } else {
        None
    };
    // outgoing connections of the target itself
    if t == 0 {
        for (di, (at, think)) in s.dials.clone().into_iter().enumerate() {
            let g = Guard::new(&gc);
            let log = log.clone();
            let flood = s.dial_flood && di == 0;
            tokio::task::spawn_local(async move {
                let _g = g;
                tokio::time::sleep(Duration::from_millis(at)).await;
                let Ok(mut st) = TcpStream::connect(("p1", 7200)).await else {
                    log.push(Ev::TDial { t, inc, ok: false });
                    return;
                };
                log.push(Ev::TDial { t, inc, ok: true });
                if flood {
                    // ask the accepting side to write and never read what it sends
                    if st.write_all(&(u64::MAX - 2).to_le_bytes()).await.is_err() {
                        return;
                    }
                    std::future::pending::<()>().await;
                }
                let mut n = 0u64;
                loop {
                    if st.write_all(&n.to_le_bytes()).await.is_err() {
                        return;
                    }
                    let mut b = [0u8; 8];
                    if st.read_exact(&mut b).await.is_err() {
                        return;
                    }
                    n += 1;
                    tokio::time::sleep(Duration::from_millis(think)).await;
                }
            });
        }
    }
    loop {
        let (mut st, peer) = lis.accept().await?;
        log.push(Ev::TAccept { t, inc, peer: peer.to_string() });
        let g = Guard::new(&gc);
        let slow_ms = s.slow_ms;
        let upload_drained = s.upload_drained;
        tokio::task::spawn_local(async move {
            let _g = g;
            let mut b = [0u8; 8];
            loop {
                if slow_ms > 0 {
                    tokio::time::sleep(Duration::from_millis(slow_ms)).await;
                }
                if st.read_exact(&mut b).await.is_err() {
                    break;
                }
                if u64::from_le_bytes(b) == u64::MAX - 1 {
                    if upload_drained {
                        // upload: read and discard as it arrives; what the peer has written is on the wire
                        let mut sink = [0u8; 256];
                        while let Ok(n) = st.read(&mut sink).await {
                            if n == 0 {
                                break;
                            }
                        }
                        break;
                    }
                    // upload: never read again, the peer's writer runs into the window
                    std::future::pending::<()>().await;
                }
                if u64::from_le_bytes(b) == u64::MAX {
                    // bulk download: write until the peer goes away (window-limited)
                    while st.write_all(&[7u8; 64]).await.is_ok() {}
                    break;
                }
                if st.write_all(&b).await.is_err() {
                    break;
                }
            }
        });
        tokio::time::sleep(Duration::from_millis(s.accept_gap_ms)).await;
    }
}

const BULK: usize = 1000;
const UPLOAD: usize = 1001;

async fn peer1_program(log: Log<Ev>, s: Scn) -> turmoil::Result {
    if let Some((at, gap)) = s.bulk {
        let log = log.clone();
        tokio::task::spawn_local(async move {
            tokio::time::sleep(Duration::from_millis(at)).await;
            log.push(Ev::ConnCall { c: BULK });
            let mut st = match TcpStream::connect(("t0", 7000)).await {
                Ok(st) => {
                    log.push(Ev::ConnOk { c: BULK, local: st.local_addr().map(|a| a.to_string()).unwrap_or_default() });
                    st
                }
                Err(e) => {
                    log.push(Ev::ConnErr { c: BULK, kind: format!("{:?}", e.kind()) });
                    return;
                }
            };
            if st.write_all(&u64::MAX.to_le_bytes()).await.is_err() {
                log.push(Ev::Unblocked { c: BULK, how: "write".into() });
                return;
            }
            let mut buf = [0u8; 64];
            loop {
                tokio::time::sleep(Duration::from_millis(gap)).await;
                match st.read(&mut buf).await {
                    Ok(0) => {
                        log.push(Ev::Unblocked { c: BULK, how: "read:UnexpectedEof".into() });
                        return;
                    }
                    Ok(_) => log.push(Ev::BulkRead),
                    Err(e) => {
                        log.push(Ev::Unblocked { c: BULK, how: format!("read:{:?}", e.kind()) });
                        return;
                    }
                }
            }
        });
    }
    if let Some(at) = s.upload {
        let log = log.clone();
        tokio::task::spawn_local(async move {
            tokio::time::sleep(Duration::from_millis(at)).await;
            log.push(Ev::ConnCall { c: UPLOAD });
            let mut st = match TcpStream::connect(("t0", 7000)).await {
                Ok(st) => {
                    log.push(Ev::ConnOk { c: UPLOAD, local: st.local_addr().map(|a| a.to_string()).unwrap_or_default() });
                    st
                }
                Err(e) => {
                    log.push(Ev::ConnErr { c: UPLOAD, kind: format!("{:?}", e.kind()) });
                    return;
                }
            };
            if st.write_all(&(u64::MAX - 1).to_le_bytes()).await.is_err() {
                log.push(Ev::Unblocked { c: UPLOAD, how: "write".into() });
                return;
            }
            loop {
                match st.write_all(&[9u8; 64]).await {
                    Ok(()) => log.push(Ev::UpWrote),
                    Err(e) => {
                        log.push(Ev::Unblocked { c: UPLOAD, how: format!("write:{:?}", e.kind()) });
                        return;
                    }
                }
            }
        });
    }
    if !s.dials.is_empty() {
        let log = log.clone();
        let lis = TcpListener::bind(("0.0.0.0", 7200)).await?;
        tokio::task::spawn_local(async move {
            let mut k = 0usize;
            loop {
                let Ok((mut st, peer)) = lis.accept().await else { continue };
                log.push(Ev::PAccept { k, peer: peer.to_string() });
                let log = log.clone();
                tokio::task::spawn_local(async move {
                    let mut b = [0u8; 8];
                    loop {
                        log.push(Ev::PInRead { k });
                        match st.read_exact(&mut b).await {
                            Ok(_) => log.push(Ev::PGot { k }),
                            Err(e) => {
                                log.push(Ev::PUnblocked { k, how: format!("read:{:?}", e.kind()) });
                                return;
                            }
                        }
                        if u64::from_le_bytes(b) == u64::MAX - 2 {
                            log.push(Ev::PFlood { k });
                            loop {
                                match st.write_all(&[5u8; 64]).await {
                                    Ok(()) => log.push(Ev::PWrote { k }),
                                    Err(e) => {
                                        log.push(Ev::PUnblocked { k, how: format!("write:{:?}", e.kind()) });
                                        return;
                                    }
                                }
                            }
                        }
                        if let Err(e) = st.write_all(&b).await {
                            log.push(Ev::PUnblocked { k, how: format!("write:{:?}", e.kind()) });
                            return;
                        }
                    }
                });
                k += 1;
            }
        });
    }
    for (c, (at, think)) in s.conn_times.iter().enumerate() {
        let log = log.clone();
        let (at, think) = (*at, *think);
        tokio::task::spawn_local(async move {
            tokio::time::sleep(Duration::from_millis(at)).await;
            log.push(Ev::ConnCall { c });
            let mut st = match TcpStream::connect(("t0", 7000)).await {
                Ok(st) => {
                    log.push(Ev::ConnOk { c, local: st.local_addr().map(|a| a.to_string()).unwrap_or_default() });
                    st
                }
                Err(e) => {
                    log.push(Ev::ConnErr { c, kind: format!("{:?}", e.kind()) });
                    return;
                }
            };
            let mut n = 0u64;
            loop {
                if let Err(e) = st.write_all(&n.to_le_bytes()).await {
                    log.push(Ev::Unblocked { c, how: format!("write:{:?}", e.kind()) });
                    return;
                }
                log.push(Ev::InRead { c });
                let mut b = [0u8; 8];
                match st.read_exact(&mut b).await {
                    Ok(_) => log.push(Ev::Pong { c }),
                    Err(e) => {
                        log.push(Ev::Unblocked { c, how: format!("read:{:?}", e.kind()) });
                        return;
                    }
                }
                n += 1;
                tokio::time::sleep(Duration::from_millis(think)).await;
            }
        });
    }
    std::future::pending::<()>().await;
    Ok(())
}

async fn peer2_program(log: Log<Ev>, s: Scn) -> turmoil::Result {
    let udp = Rc::new(UdpSocket::bind(("0.0.0.0", 9100)).await?);
    {
        let udp = udp.clone();
        let log = log.clone();
        tokio::task::spawn_local(async move {
            let mut b = [0u8; 16];
            loop {
                if let Ok((8, _)) = udp.recv_from(&mut b).await {
                    log.push(Ev::PongRecv { id: u64::from_le_bytes(b[..8].try_into().unwrap()) });
                }
            }
        });
    }
    let mut id = 1u64;
    loop {
        tokio::time::sleep(Duration::from_millis(s.udp_period_ms)).await;
        let mc = id % 3 == 0;
        log.push(Ev::PingSent { id, multicast: mc });
        if mc {
            let _ = udp.send_to(&id.to_le_bytes(), (GROUP, 9000)).await;
        } else {
            let _ = udp.send_to(&id.to_le_bytes(), ("t0", 9000)).await;
        }
        id += 1;
    }
}

/// Isolated pair: D serves, C drives; everything they observe goes to the log
/// with virtual time so that any disturbance shows as a diff against the twin.
async fn iso_d(log: Log<Ev>) -> turmoil::Result {
    let lis = TcpListener::bind(("0.0.0.0", 7100)).await?;
    let udp = UdpSocket::bind(("0.0.0.0", 9200)).await?;
    // d is a member of the same multicast group (same port) as the targets: a target going
    // down must not take d's membership with it
    let mc = UdpSocket::bind(("0.0.0.0", 9000)).await?;
    mc.join_multicast_v4(GROUP, std::net::Ipv4Addr::UNSPECIFIED)?;
    let l3 = log.clone();
    tokio::task::spawn_local(async move {
        let mut b = [0u8; 16];
        loop {
            if let Ok((n, from)) = mc.recv_from(&mut b).await {
                l3.push(Ev::Iso { who: 1, what: format!("multicast {n} {:?} from {from} at {:?}", &b[..n], turmoil::sim_elapsed()) });
            }
        }
    });
    let l2 = log.clone();
    tokio::task::spawn_local(async move {
        let mut b = [0u8; 16];
        loop {
            if let Ok((n, from)) = udp.recv_from(&mut b).await {
                l2.push(Ev::Iso { who: 1, what: format!("udp {n} from {from} at {:?}", turmoil::sim_elapsed()) });
                let _ = udp.send_to(&b[..n], from).await;
            }
        }
    });
    let _ = sfs::create_dir_all("/iso");
    loop {
        let (mut st, peer) = lis.accept().await?;
        log.push(Ev::Iso { who: 1, what: format!("accept {peer} at {:?}", turmoil::elapsed()) });
        let log = log.clone();
        tokio::task::spawn_local(async move {
            let mut b = [0u8; 8];
            let mut k = 0u64;
            while st.read_exact(&mut b).await.is_ok() {
                let _ = sfs::write(format!("/iso/d{}", k % 3), b);
                let back = sfs::read(format!("/iso/d{}", k % 3)).unwrap_or_default();
                log.push(Ev::Iso { who: 1, what: format!("tcp {:?} fs {:?} at {:?}", b, back, turmoil::elapsed()) });
                if st.write_all(&b).await.is_err() {
                    break;
                }
                k += 1;
            }
        });
    }
}

async fn iso_c(log: Log<Ev>) -> turmoil::Result {
    tokio::time::sleep(Duration::from_millis(3)).await;
    let udp = UdpSocket::bind(("0.0.0.0", 9201)).await?;
    let mut st = TcpStream::connect(("d", 7100)).await?;
    let _ = sfs::create_dir_all("/iso");
    let mut n = 0u64;
    loop {
        st.write_all(&n.to_le_bytes()).await?;
        let mut b = [0u8; 8];
        st.read_exact(&mut b).await?;
        udp.send_to(&n.to_le_bytes(), ("d", 9200)).await?;
        let mut ub = [0u8; 16];
        let (un, from) = udp.recv_from(&mut ub).await?;
        let _ = sfs::write("/iso/c", b);
        log.push(Ev::Iso {
            who: 0,
            what: format!("pong {:?} udp {un} from {from} fs {:?} elapsed {:?} sim {:?} epoch {:?}", b, sfs::read("/iso/c").ok(), turmoil::elapsed(), turmoil::sim_elapsed(), turmoil::since_epoch()),
        });
        n += 1;
        tokio::time::sleep(Duration::from_millis(2)).await;
    }
}

struct Exec {
    evs: Vec<(u64, u64, Ev)>,
    trace: Vec<TraceEv>,
    /// samples taken by the controller right after crash / bounce returned
    ctl: Vec<CtlSample>,
    probes: Vec<TProbe>,
    panic: Option<String>,
    t_ips: Vec<String>,
}

#[derive(Clone, Debug)]
struct CtlSample {
    what: &'static str,
    step: u64,
    seq: u64,
    /// per target: live guards of every incarnation
    guards: Vec<Vec<i64>>,
    progress: Vec<u64>,
    counts: Vec<(usize, usize, usize, usize)>,
    running: Vec<bool>,
    factory_calls: Vec<u32>,
}

fn execute(s: &Scn) -> Exec {
    rec::with_recorder(false, |h| {
        let log: Log<Ev> = Log::new();
        rec::set_step(0);
        let mut b = turmoil::Builder::new();
        b.tick_duration(Duration::from_millis(s.tick_ms))
            .epoch(epoch(0))
            .rng_seed(s.rng_seed)
            .min_message_latency(Duration::from_millis(s.lat_ms))
            .max_message_latency(Duration::from_millis(s.lat_ms))
            .tcp_capacity(s.tcp_cap)
            .simulation_duration(Duration::from_secs(100_000));
        if s.tokio_io {
            b.enable_tokio_io();
        }
        let mut sim = b.build();
        let nt = if s.two_targets { 2 } else { 1 };
        let probes: Vec<TProbe> = (0..nt).map(|_| TProbe::default()).collect();
        for t in 0..nt {
            let (log, p, sc) = (log.clone(), probes[t].clone(), s.clone());
            sim.host(format!("t{t}"), move || {
                let inc = p.factory_calls.get();
                p.factory_calls.set(inc + 1);
                p.guards.borrow_mut().push(Rc::new(Cell::new(0)));
                target_program(log.clone(), t, inc, p.clone(), sc.clone())
            });
        }
        {
            let (log, sc) = (log.clone(), s.clone());
            sim.host("p1", move || peer1_program(log.clone(), sc.clone()));
        }
        {
            let (log, sc) = (log.clone(), s.clone());
            sim.host("p2", move || peer2_program(log.clone(), sc.clone()));
        }
        {
            let log = log.clone();
            sim.host("d", move || iso_d(log.clone()));
        }
        {
            let log = log.clone();
            sim.host("c", move || iso_c(log.clone()));
        }
        let t_ips: Vec<String> = (0..nt).map(|t| sim.lookup(format!("t{t}")).to_string()).collect();
        let mut ctl = vec![];
        let sample = |sim: &mut turmoil::Sim<'_>, what: &'static str, probes: &Vec<TProbe>| CtlSample {
            what,
            step: rec::step(),
            seq: rec::next_seq(),
            guards: probes.iter().map(|p| p.guards.borrow().iter().map(|g| g.get()).collect()).collect(),
            progress: probes.iter().map(|p| p.progress.get()).collect(),
            counts: (0..probes.len()).map(|t| sim.verif_host_counts(format!("t{t}"))).collect(),
            running: (0..probes.len()).map(|t| sim.is_host_running(format!("t{t}"))).collect(),
            factory_calls: probes.iter().map(|p| p.factory_calls.get()).collect(),
        };
        // plan: list of (after step k, action): 0 = crash all targets, 1 = bounce all, 2 = crash t0 only
        let mut plan: Vec<(u64, u8)> = vec![];
        match &s.inject {
            Inject::None => {}
            Inject::Crash { at, bounce_after } => {
                plan.push((*at, 0));
                if let Some(d) = bounce_after {
                    plan.push((at + d, 1));
                }
            }
            Inject::BounceOnly { at } => plan.push((*at, 1)),
            Inject::Cycles { at, gap, n } => {
                let mut k = *at;
                for _ in 0..*n {
                    plan.push((k, 0));
                    plan.push((k + gap, 1));
                    k += 2 * gap + 1;
                }
            }
            Inject::CrashOneThenAll { at, gap } => {
                plan.push((*at, 2));
                plan.push((at + gap, 0));
            }
            Inject::BounceThenCrash { at, gap } => {
                plan.push((*at, 1));
                plan.push((at + gap, 0));
            }
        }
        let targets: Vec<usize> = (0..nt).collect();
        let mut panic = None;
        for k in 0..=s.steps {
            for (at, act) in &plan {
                if *at == k {
                    let _ = vcore::take_last_panic(); // nothing stale: only panics raised inside the call below count
                    let r = std::panic::catch_unwind(std::panic::AssertUnwindSafe(|| match act {
                        0 => {
                            log.push(Ev::Crash { targets: targets.clone() });
                            if s.two_targets {
                                sim.crash(regex::Regex::new("^t[01]$").unwrap());
                            } else {
                                sim.crash("t0");
                            }
                            log.push(Ev::CrashReturned);
                        }
                        2 => {
                            log.push(Ev::Crash { targets: vec![0] });
                            sim.crash("t0");
                            log.push(Ev::CrashReturned);
                        }
                        _ => {
                            log.push(Ev::Bounce { targets: targets.clone() });
                            if s.two_targets {
                                sim.bounce(regex::Regex::new("^t[01]$").unwrap());
                            } else {
                                sim.bounce("t0");
                            }
                            log.push(Ev::BounceReturned);
                        }
                    }));
                    if let Err(p) = r {
                        panic = Some(vcore::take_last_panic().unwrap_or(vcore::panic_message(&*p)));
                    } else if let Some(p) = vcore::take_last_panic() {
                        // a destructor panicked while the tasks were dropped (the runtime swallows it)
                        panic = Some(format!("panic inside Sim::crash / Sim::bounce while the host's tasks were dropped: {p}"));
                    }
                    ctl.push(sample(&mut sim, match act { 0 => "after-crash", 2 => "after-crash-t0", _ => "after-bounce" }, &probes));
                }
            }
            if k == s.steps || panic.is_some() {
                break;
            }
            // sample before each step while every target is down (no execution while down)
            if ctl.last().map(|c| c.what == "after-crash" || c.what == "down").unwrap_or(false) {
                ctl.push(sample(&mut sim, "down", &probes));
            }
            match util::step_catch(&mut sim) {
                Err(p) => {
                    panic = Some(p);
                    break;
                }
                Ok(Err(e)) => {
                    panic = Some(format!("step error: {e}"));
                    break;
                }
                Ok(Ok(_)) => {}
            }
        }
        ctl.push(sample(&mut sim, "end", &probes));
        drop(sim);
        // dropping the Sim drops still-running hosts outside any host context (not a crash):
        // whatever their destructors raise there is not part of this property
        let _ = vcore::take_last_panic();
        Exec { evs: log.take_seq(), trace: h.take(), ctl, probes, panic, t_ips }
    })
}

fn iso_log(ex: &Exec, max_step: u64) -> Vec<String> {
    ex.evs.iter().filter_map(|(_, st, e)| if let (Ev::Iso { who, what }, true) = (e, *st <= max_step) { Some(format!("{st}|{who}|{what}")) } else { None }).collect()
}

fn check(s: &Scn, ex: &Exec, twin_iso: &[String], base_steps: u64, out: &mut ScenarioOut) {
    let desc = json!({"scenario": format!("{s:?}")});
    let kind = match s.inject {
        Inject::None => "none",
        Inject::Crash { bounce_after: None, .. } => "crash",
        Inject::Crash { .. } => "crash-bounce",
        Inject::BounceOnly { .. } => "bounce-only",
        Inject::Cycles { .. } => "cycles",
        Inject::CrashOneThenAll { .. } => "crash-one-then-regex",
        Inject::BounceThenCrash { .. } => "bounce-then-crash",
    };
    if let Some(p) = &ex.panic {
        out.violate("panic", format!("C04|panic|{kind}"), format!("simulation panicked / failed: {p}"), desc.clone());
        return;
    }
    let lat_steps = s.lat_ms.div_ceil(s.tick_ms);
    // controller samples
    let mut prev_factory: Vec<u32> = vec![1; ex.probes.len()];
    let mut prev: Option<&CtlSample> = None;
    for c in &ex.ctl {
        match c.what {
            "after-crash" | "after-crash-t0" => {
                out.count("crash_points", 1);
                let only_t0 = c.what == "after-crash-t0";
                if !only_t0 && prev.map(|p| p.what == "after-crash-t0").unwrap_or(false) {
                    out.count("regex_crash_with_one_target_already_down", 1);
                }
                for (t, g) in c.guards.iter().enumerate() {
                    if only_t0 && t != 0 {
                        continue;
                    }
                    if g.iter().any(|x| *x != 0) {
                        out.violate("destructors-not-run", format!("C04|destructors-not-run|{kind}"), format!("after crash (step {}) host t{t} still has live task guards per incarnation {g:?}", c.step), desc.clone());
                    }
                }
                for (t, n) in c.counts.iter().enumerate() {
                    if only_t0 && t != 0 {
                        continue;
                    }
                    if *n != (0, 0, 0, 0) {
                        out.violate(
                            "resources-not-released",
                            format!("C04|resources-not-released|udp={} tcp={} streams={} memberships={}|{kind}", n.0.min(1), n.1.min(1), n.2.min(1), n.3.min(1)),
                            format!("after crash (step {}) host t{t} still holds (udp binds, listeners, streams, multicast memberships) = {n:?}", c.step),
                            desc.clone(),
                        );
                    }
                }
                for (t, r) in c.running.iter().enumerate() {
                    if only_t0 && t != 0 {
                        continue;
                    }
                    if *r {
                        out.violate("still-running", format!("C04|still-running|{kind}"), format!("is_host_running(t{t}) is true right after crash"), desc.clone());
                    }
                }
            }
            "down" | "after-bounce" | "end" => {
                if let Some(p) = prev {
                    if p.what == "after-crash" || p.what == "down" {
                        out.count("down_step_observations", 1);
                        for t in 0..c.progress.len() {
                            if c.progress[t] != p.progress[t] {
                                out.violate("runs-while-down", format!("C04|runs-while-down|{kind}"), format!("host t{t} made progress ({} -> {}) between step {} and {} while crashed", p.progress[t], c.progress[t], p.step, c.step), desc.clone());
                            }
                        }
                    }
                }
                if c.what == "after-bounce" {
                    out.count("bounces", 1);
                    for t in 0..c.factory_calls.len() {
                        // the factory runs when the software is (re)started: exactly once per bounce call
                        if c.factory_calls[t] != prev_factory[t] + 1 {
                            out.violate("factory-count", format!("C04|factory-count|{kind}"), format!("bounce at step {}: software factory of t{t} ran {} times (expected exactly 1)", c.step, c.factory_calls[t] as i64 - prev_factory[t] as i64), desc.clone());
                        }
                        prev_factory[t] = c.factory_calls[t];
                        // the previous incarnation is gone: only guards created by a not-yet-polled new incarnation may exist (none yet)
                        let g = &c.guards[t];
                        if g[..g.len().saturating_sub(1)].iter().any(|x| *x != 0) {
                            out.violate("old-incarnation-alive", format!("C04|old-incarnation-alive|{kind}"), format!("after bounce (step {}) earlier incarnations of t{t} still have live task guards: {g:?}", c.step), desc.clone());
                        }
                        if !c.running[t] {
                            out.violate("not-running-after-bounce", format!("C04|not-running-after-bounce|{kind}"), format!("is_host_running(t{t}) is false after bounce"), desc.clone());
                        }
                    }
                }
            }
            _ => {}
        }
        prev = Some(c);
    }
    // windows during which t0 was down: (crash seq, crash step, bounce seq/step or end)
    let mut downs: Vec<(u64, u64, Option<(u64, u64)>)> = vec![];
    for (q, st, e) in &ex.evs {
        match e {
            Ev::CrashReturned => downs.push((*q, *st, None)),
            Ev::Bounce { .. } => {
                match downs.last_mut() {
                    Some(d) if d.2.is_none() => d.2 = Some((*q, *st)),
                    // bounce without a preceding crash: the old incarnation dies here
                    _ => downs.push((*q, *st, Some((*q, *st)))),
                }
            }
            _ => {}
        }
    }
    // no Send from a crashed host (per target: a crash of t0 alone leaves t1 running)
    let mut down_since: BTreeMap<usize, u64> = BTreeMap::new(); // target -> seq of the crash return
    let mut pending_targets: Vec<usize> = vec![];
    let mut windows: Vec<(usize, u64, u64, Option<u64>)> = vec![]; // (target, crash seq, crash step, bounce seq)
    for (q, st, e) in &ex.evs {
        match e {
            Ev::Crash { targets } => pending_targets = targets.clone(),
            Ev::CrashReturned => {
                for t in &pending_targets {
                    if !down_since.contains_key(t) {
                        down_since.insert(*t, *q);
                        windows.push((*t, *q, *st, None));
                    }
                }
            }
            Ev::Bounce { targets } => {
                for t in targets {
                    if down_since.remove(t).is_some() {
                        if let Some(w) = windows.iter_mut().rev().find(|w| w.0 == *t && w.3.is_none()) {
                            w.3 = Some(*q);
                        }
                    }
                }
            }
            _ => {}
        }
    }
    for t in &ex.trace {
        if t.msg == "Send" {
            for (tg, cq, cst, b) in &windows {
                let in_window = t.seq > *cq && b.map(|x| t.seq < x).unwrap_or(true);
                if in_window && t.src.starts_with(&format!("{}:", ex.t_ips[*tg])) {
                    out.violate("sends-while-down", format!("C04|sends-while-down|{kind}"), format!("host t{tg} ({}) sent {} to {} in step {} although it was crashed after step {cst}", t.src, t.protocol, t.dst, t.step), desc.clone());
                }
            }
        }
    }
    // peers: streams established at the crash instant must be unblocked promptly
    let first_down = downs.first().cloned();
    if let Some((cq, cstep, _)) = first_down {
        let mut state: BTreeMap<usize, (&'static str, u64)> = BTreeMap::new(); // conn -> (state, seq)
        let mut local: BTreeMap<usize, String> = BTreeMap::new();
        let mut accepted: BTreeSet<String> = BTreeSet::new();
        for (q, _, e) in &ex.evs {
            if *q > cq {
                break;
            }
            match e {
                Ev::ConnCall { c } => {
                    state.insert(*c, ("connecting", *q));
                }
                Ev::ConnOk { c, local: l } => {
                    state.insert(*c, ("established", *q));
                    local.insert(*c, l.clone());
                }
                Ev::ConnErr { c, .. } | Ev::Unblocked { c, .. } => {
                    state.insert(*c, ("done", *q));
                }
                Ev::InRead { c } => {
                    state.insert(*c, ("in-read", *q));
                }
                Ev::Pong { c } => {
                    state.insert(*c, ("established", *q));
                }
                Ev::TAccept { peer, t: 0, .. } => {
                    accepted.insert(peer.clone());
                }
                _ => {}
            }
        }
        // SYNs delivered to t0 before the crash (wire view)
        let syn_delivered: BTreeSet<String> = ex.trace.iter().filter(|t| t.seq < cq && t.msg == "Delivered" && t.protocol == "TCP SYN" && t.node == "t0").map(|t| t.src.clone()).collect();
        let syn_sent: Vec<(u64, String)> = ex.trace.iter().filter(|t| t.msg == "Send" && t.protocol == "TCP SYN" && t.node == "p1").map(|t| (t.seq, t.src.clone())).collect();
        let after: Vec<&(u64, u64, Ev)> = ex.evs.iter().filter(|(q, _, _)| *q > cq).collect();
        let think_max = s.conn_times.iter().map(|x| x.1).max().unwrap_or(0);
        for (c, (st, q)) in &state {
            if *c == BULK || *c == UPLOAD {
                continue; // judged separately
            }
            out.saw("stream_states_at_crash", st.to_string());
            let unb = after.iter().find_map(|(_, stp, e)| match e {
                Ev::Unblocked { c: cc, how } if cc == c => Some((*stp, how.clone())),
                Ev::ConnErr { c: cc, kind } if cc == c => Some((*stp, format!("connect:{kind}"))),
                Ev::ConnOk { c: cc, .. } if cc == c => Some((*stp, "connect:ok".to_string())),
                _ => None,
            });
            match *st {
                "in-read" => {
                    out.count("peers_parked_in_read_at_crash", 1);
                    let bound = cstep + lat_steps + 2;
                    // an echo that was already in flight may still arrive: the reader then
                    // is not blocked at all, it notices the close at its next operation
                    let pong = after.iter().find_map(|(_, stp, e)| match e {
                        Ev::Pong { c: cc } if cc == c => Some(*stp),
                        Ev::Unblocked { c: cc, .. } if cc == c => Some(u64::MAX),
                        _ => None,
                    });
                    let think = s.conn_times.get(*c).map(|x| x.1).unwrap_or(0);
                    match &unb {
                        Some((stp, how)) if *stp <= bound && (how.contains("UnexpectedEof") || how.contains("ConnectionReset") || how.contains("BrokenPipe")) => out.count("peers_unblocked_promptly", 1),
                        Some((stp, _)) if pong.map(|p| p <= bound && *stp <= p + (think + 2 * s.lat_ms) / s.tick_ms + 4).unwrap_or(false) => out.count("peers_served_in_flight_echo_then_unblocked", 1),
                        other => out.violate(
                            "peer-not-unblocked",
                            format!("C04|peer-not-unblocked|in-read|{kind}"),
                            format!("stream #{c} was parked in read when t0 crashed after step {cstep}; expected EOF/reset by step {bound}, observed {other:?}"),
                            desc.clone(),
                        ),
                    }
                }
                "established" => {
                    out.count("peers_established_idle_at_crash", 1);
                    let bound = cstep + (think_max + 2 * s.lat_ms) / s.tick_ms + 4;
                    match &unb {
                        Some((stp, _)) if *stp <= bound => out.count("peers_unblocked_promptly", 1),
                        other => {
                            if s.steps > bound {
                                out.violate(
                                    "peer-not-unblocked",
                                    format!("C04|peer-not-unblocked|idle|{kind}"),
                                    format!("stream #{c} was established when t0 crashed after step {cstep}; expected an error/EOF by step {bound}, observed {other:?}"),
                                    desc.clone(),
                                )
                            }
                        }
                    }
                }
                "connecting" => {
                    // which SYN is it? the first SYN sent by p1 after the ConnCall
                    let src = syn_sent.iter().find(|(sq, _)| *sq > *q).map(|x| x.1.clone());
                    let queued = src.as_ref().map(|a| syn_delivered.contains(a) && !accepted.contains(a)).unwrap_or(false);
                    if queued {
                        out.count("queued_syns_at_crash", 1);
                        let bound = cstep + 2;
                        match &unb {
                            Some((stp, how)) if *stp <= bound && how == "connect:ConnectionRefused" => out.count("queued_connectors_refused", 1),
                            other => out.violate(
                                "queued-connect-not-refused",
                                format!("C04|queued-connect-not-refused|{kind}"),
                                format!("connector #{c}'s SYN was queued at t0 when it crashed after step {cstep}; expected ConnectionRefused by step {bound}, observed {other:?}"),
                                desc.clone(),
                            ),
                        }
                    } else {
                        out.count("handshakes_in_flight_at_crash", 1);
                    }
                }
                _ => {}
            }
        }
    }
    // a window-limited bulk download must still end (EOF / reset) once the reader has drained
    if let (Some((cq, cstep, _)), Some((_, gap))) = (first_down, s.bulk) {
        let established = ex.evs.iter().any(|(q, _, e)| *q < cq && matches!(e, Ev::ConnOk { c, .. } if *c == BULK));
        let ended_before = ex.evs.iter().any(|(q, _, e)| *q < cq && matches!(e, Ev::Unblocked { c, .. } if *c == BULK));
        if established && !ended_before {
            out.count("bulk_streams_open_at_crash", 1);
            let bound = cstep + (s.tcp_cap as u64 + 3) * (gap / s.tick_ms + 1) + lat_steps + 4;
            let unb = ex.evs.iter().find_map(|(q, st, e)| match e {
                Ev::Unblocked { c, how } if *c == BULK && *q > cq => Some((*st, how.clone())),
                _ => None,
            });
            match unb {
                Some((st, _)) if st <= bound => out.count("bulk_streams_ended_after_crash", 1),
                other => {
                    if s.steps > bound {
                        out.violate(
                            "peer-not-unblocked",
                            format!("C04|peer-not-unblocked|bulk|{kind}"),
                            format!("bulk reader (tcp_capacity {}, {} ms between reads) was mid-transfer when t0 crashed after step {cstep}; expected EOF/reset by step {bound} after draining, observed {other:?}", s.tcp_cap, gap),
                            desc.clone(),
                        )
                    }
                }
            }
        }
    }
    // an uploader with an established stream when t0 crashes must get a write error instead of
    // hanging on the flow-control window: whether t0 never read from the stream (window full of
    // unread data) or read everything as it arrived (window in flight at the crash)
    if let (Some((cq, cstep, _)), Some(_)) = (first_down, s.upload) {
        let established = ex.evs.iter().any(|(q, _, e)| *q < cq && matches!(e, Ev::ConnOk { c, .. } if *c == UPLOAD));
        let ended_before = ex.evs.iter().any(|(q, _, e)| *q < cq && matches!(e, Ev::Unblocked { c, .. } if *c == UPLOAD));
        if established && !ended_before {
            out.count("uploads_open_at_crash", 1);
            let last_write = ex.evs.iter().filter(|(q, _, e)| *q < cq && matches!(e, Ev::UpWrote)).map(|x| x.1).last().unwrap_or(0);
            let parked = last_write + 2 * lat_steps + 3 < cstep;
            if parked {
                out.count("upload_writers_parked_on_full_window_at_crash", 1);
            }
            if s.upload_drained {
                out.count("uploads_with_window_in_flight_at_crash", 1);
            }
            // segments written after the crash are answered with a reset one round trip later
            let bound = cstep + 2 * lat_steps + 6;
            let unb = ex.evs.iter().find_map(|(q, st, e)| match e {
                Ev::Unblocked { c, how } if *c == UPLOAD && *q > cq => Some((*st, how.clone())),
                _ => None,
            });
            match unb {
                Some((st, _)) if st <= bound => out.count("upload_writers_unblocked", 1),
                other => {
                    if s.steps > bound {
                        out.violate(
                            "peer-not-unblocked",
                            format!("C04|peer-not-unblocked|upload-{}|{kind}", if s.upload_drained { "window-in-flight" } else if parked { "parked-in-write" } else { "writing" }),
                            format!("uploader (tcp_capacity {}, last completed write in step {last_write}) had an established stream to t0 when it crashed after step {cstep}; expected a write error by step {bound}, observed {other:?}", s.tcp_cap),
                            desc.clone(),
                        )
                    }
                }
            }
        }
    }
    // streams the target dialled itself: the accepting peer must be unblocked as well
    if let Some((cq, cstep, _)) = first_down {
        let mut open: BTreeMap<usize, u64> = BTreeMap::new();
        for (q, st, e) in &ex.evs {
            if *q > cq {
                break;
            }
            match e {
                Ev::PAccept { k, .. } => {
                    open.insert(*k, *st);
                }
                Ev::PUnblocked { k, .. } => {
                    open.remove(k);
                }
                _ => {}
            }
        }
        for (k, acc_step) in open {
            out.count("target_dialled_streams_open_at_crash", 1);
            if acc_step == cstep {
                out.count("target_dialled_streams_accepted_in_the_crash_step", 1);
            }
            // a stream p1 is flooding: its writer is (or is about to be) parked on the window;
            // what it writes after the crash is answered with a reset one round trip later
            let flooding = ex.evs.iter().any(|(q, _, e)| *q < cq && matches!(e, Ev::PFlood { k: kk } if *kk == k));
            if flooding {
                out.count("target_dialled_streams_flooded_by_acceptor_at_crash", 1);
                let last_write = ex.evs.iter().filter(|(q, _, e)| *q < cq && matches!(e, Ev::PWrote { k: kk } if *kk == k)).map(|x| x.1).last().unwrap_or(acc_step);
                if last_write + 2 * lat_steps + 3 < cstep {
                    out.count("acceptor_writers_parked_on_full_window_at_crash", 1);
                }
            }
            let bound = if flooding { cstep + 2 * lat_steps + 6 } else { cstep + lat_steps + 3 };
            let unb = ex.evs.iter().find_map(|(q, st, e)| match e {
                Ev::PUnblocked { k: kk, how } if *kk == k && *q > cq => Some((*st, how.clone())),
                _ => None,
            });
            match unb {
                Some((st, _)) if st <= bound => out.count("target_dialled_streams_unblocked", 1),
                other => {
                    if s.steps > bound {
                        out.violate(
                            "peer-not-unblocked",
                            format!("C04|peer-not-unblocked|accepted-from-target{}|{kind}", if flooding { "-flooding" } else if acc_step == cstep { "-in-crash-step" } else { "" }),
                            format!("p1 accepted stream #{k} from t0 in step {acc_step} and was {} it when t0 crashed after step {cstep}; expected EOF/reset by step {bound}, observed {other:?}", if flooding { "writing to" } else { "reading from" }),
                            desc.clone(),
                        )
                    }
                }
            }
        }
    }
    // traffic that reached the host while it was down must not reach a new incarnation
    for (_, cstep, b) in &downs {
        let Some((_, bstep)) = b else { continue };
        // pings (fixed latency): maturity step = send step + ceil(lat/tick)
        let sent: BTreeMap<u64, u64> = ex.evs.iter().filter_map(|(_, st, e)| if let Ev::PingSent { id, .. } = e { Some((*id, *st)) } else { None }).collect();
        let recv_by_t0: BTreeMap<u64, (u64, u32)> = ex.evs.iter().filter_map(|(_, st, e)| if let Ev::TPing { t: 0, inc, id } = e { Some((*id, (*st, *inc))) } else { None }).collect();
        for (id, ss) in &sent {
            let mat = ss + lat_steps;
            if mat > *cstep && mat <= *bstep {
                out.count("datagrams_reaching_down_host", 1);
                if let Some((st, inc)) = recv_by_t0.get(id) {
                    if *st > *bstep {
                        out.violate(
                            "stale-datagram-delivered",
                            format!("C04|stale-datagram-delivered|{kind}"),
                            format!("ping #{id} sent in step {ss} reached t0 in step {mat} while it was down (crashed after {cstep}, bounced after {bstep}) but incarnation {inc} received it in step {st}"),
                            desc.clone(),
                        );
                    }
                }
            }
        }
        // connects whose SYN matured while down
        let syn_sent: Vec<(u64, u64, String)> = ex.trace.iter().filter(|t| t.msg == "Send" && t.protocol == "TCP SYN" && t.node == "p1").map(|t| (t.seq, t.step, t.src.clone())).collect();
        for (q, _, e) in &ex.evs {
            if let Ev::ConnCall { c } = e {
                if let Some((_, sstep, _)) = syn_sent.iter().find(|(sq, _, _)| *sq > *q) {
                    let mat = sstep + lat_steps;
                    if mat > *cstep && mat <= *bstep {
                        out.count("syns_reaching_down_host", 1);
                        let res = ex.evs.iter().find_map(|(_, stp, e2)| match e2 {
                            Ev::ConnOk { c: cc, .. } if cc == c => Some((*stp, "ok".to_string())),
                            Ev::ConnErr { c: cc, kind } if cc == c => Some((*stp, kind.clone())),
                            _ => None,
                        });
                        match res {
                            Some((stp, k)) if k == "ConnectionRefused" && stp <= bstep + 2 => out.count("stale_syns_refused", 1),
                            other => out.violate(
                                "stale-syn-not-refused",
                                format!("C04|stale-syn-not-refused|{kind}"),
                                format!("connector #{c}'s SYN reached t0 in step {mat} while it was down (crashed after {cstep}, bounced after {bstep}); expected ConnectionRefused by step {}, observed {other:?}", bstep + 2),
                                desc.clone(),
                            ),
                        }
                    }
                }
            }
        }
    }
    // a new incarnation starts with an empty file-handle table
    for (_, _, e) in &ex.evs {
        if let Ev::TFds { t, inc, open } = e {
            out.count("incarnation_fd_tables_observed", 1);
            if *open != 0 {
                out.violate("fds-not-released", format!("C04|fds-not-released|{kind}"), format!("incarnation {inc} of t{t} starts with {open} file handles of its predecessor still registered"), desc.clone());
            }
        }
    }
    // every new incarnation binds its ports again
    for (_, _, e) in &ex.evs {
        if let Ev::TBound { t, inc, tcp, udp, join } = e {
            if *inc > 0 {
                out.count("rebinds_after_bounce", 1);
            }
            if !(*tcp && *udp && *join) {
                out.violate("rebind-failed", format!("C04|rebind-failed|{kind}"), format!("incarnation {inc} of t{t} could not bind its sockets again (tcp {tcp}, udp {udp}, join {join})"), desc.clone());
            }
        }
    }
    // non-interference: the isolated pair's log equals the twin's
    let iso = iso_log(ex, base_steps);
    let n = iso.len().min(twin_iso.len());
    out.count("isolated_pair_events_compared", n as u64);
    if iso.len() != twin_iso.len() || iso[..n] != twin_iso[..n] {
        let first = (0..n).find(|i| iso[*i] != twin_iso[*i]).unwrap_or(n);
        out.violate(
            "other-host-disturbed",
            format!("C04|other-host-disturbed|{kind}"),
            format!("isolated pair c<->d: log differs from the crash-free twin at event {first}: {:?} vs twin {:?} ({} vs {} events)", iso.get(first), twin_iso.get(first), iso.len(), twin_iso.len()),
            desc.clone(),
        );
    }
}

fn base(seed: u64) -> Scn {
    let mut r = Rng::new(seed);
    let tick_ms = r.pick_copy(&[1u64, 1, 2]);
    let lat_ms = r.pick_copy(&[0u64, 1, 3]);
    let nconn = r.range(3, 6);
    let mut conn_times = vec![];
    for _ in 0..nconn {
        conn_times.push((r.range(1, 40), r.pick_copy(&[0u64, 2, 7])));
    }
    Scn {
        tick_ms,
        lat_ms,
        rng_seed: r.next_u64(),
        steps: 60 / tick_ms + 12,
        two_targets: r.chance(0.25),
        accept_gap_ms: r.pick_copy(&[0u64, 3, 9]),
        conn_times,
        udp_period_ms: r.pick_copy(&[1u64, 2, 3]),
        tcp_cap: r.pick_copy(&[8usize, 12, 64]), // > number of concurrent connectors (pending SYNs >= capacity is a documented panic)
        bulk: if r.chance(0.6) { Some((r.range(2, 20), r.pick_copy(&[1u64, 3, 6]))) } else { None },
        slow_ms: r.pick_copy(&[0u64, 0, 2, 5]),
        upload: if r.chance(0.5) { Some(r.range(2, 25)) } else { None },
        upload_drained: r.coin(),
        dials: (0..r.range(0, 3)).map(|_| (r.range(1, 45), r.pick_copy(&[0u64, 2, 7]))).collect(),
        dial_flood: r.chance(0.4),
        tokio_io: r.chance(0.3),
        inject: Inject::None,
    }
}

fn workload_scenarios(s0: &Scn, r: &mut Rng, all_points: bool) -> Vec<Scn> {
    let mut v = vec![];
    let n = s0.steps - 10;
    let points: Vec<u64> = if all_points { (1..=n).collect() } else { (1..=n).filter(|_| r.chance(0.45)).collect() };
    for c in points {
        let mut s = s0.clone();
        s.inject = match r.below(8) {
            7 => Inject::BounceThenCrash { at: c, gap: r.range(0, 4) },
            0 => Inject::Crash { at: c, bounce_after: None },
            1 => Inject::Crash { at: c, bounce_after: Some(0) },
            2 => Inject::Crash { at: c, bounce_after: Some(1) },
            3 => Inject::Crash { at: c, bounce_after: Some(r.range(2, 6)) },
            4 => Inject::BounceOnly { at: c },
            5 if s0.two_targets => Inject::CrashOneThenAll { at: c, gap: r.range(0, 4) },
            _ => Inject::Cycles { at: c, gap: r.range(0, 3), n: 2 },
        };
        if let Inject::Cycles { .. } = s.inject {
            s.steps += 12;
        }
        v.push(s);
    }
    v
}

pub fn run(ctx: &Ctx) -> ! {
    if ctx.replay.is_some() {
        let w = vcore::read_replay(ctx).expect("replay file");
        let seed = w["workload_seed"].as_u64().unwrap_or(0);
        let idx = w["point_index"].as_u64().unwrap_or(0) as usize;
        let all = w["all_points"].as_bool().unwrap_or(false);
        let report = vcore::run_single(ctx, move |_| {
            let s0 = base(seed);
            let twin = iso_log(&execute(&s0), s0.steps);
            let mut r = Rng::new(seed ^ 0x5eed);
            let scns = workload_scenarios(&s0, &mut r, all);
            let mut out = ScenarioOut::default();
            if let Some(s) = scns.get(idx) {
                let ex = execute(s);
                if std::env::var("VERIF_DEBUG").is_ok() {
                    let mut lines: Vec<(u64, String)> = ex.evs.iter().filter(|e| !matches!(e.2, Ev::Iso { .. } | Ev::PingSent { .. } | Ev::PongRecv { .. } | Ev::TPing { .. })).map(|(q, st, e)| (*q, format!("step {st}: {e:?}"))).collect();
                    lines.extend(ex.trace.iter().filter(|t| t.protocol.starts_with("TCP") && (t.node == "t0" || t.node == "p1" || t.node.is_empty())).map(|t| (t.seq, format!("step {}: [{}] {} {} -> {} {}", t.step, t.node, t.msg, t.src, t.dst, t.protocol))));
                    lines.sort();
                    for (q, l) in lines {
                        eprintln!("{q} {l}");
                    }
                }
                check(s, &ex, &twin, s0.steps, &mut out);
            }
            out
        });
        vcore::finish(ctx, report, fin());
    }
    // one unit of parallel work = one workload (twin + all its crash points)
    let nwork = ctx.pick(700u64, 8000);
    let all_points = !ctx.quick();
    let c2 = ctx.clone();
    let report = vcore::run_parallel(
        ctx,
        nwork,
        RunOpts { budget_s: ctx.pick(70.0, 700.0), scenario_timeout_s: 300.0 },
        move |idx| {
            let seed = c2.scenario_seed("c04", idx);
            let s0 = base(seed);
            let twin_ex = execute(&s0);
            let twin = iso_log(&twin_ex, s0.steps);
            let mut out = ScenarioOut::default();
            if let Some(p) = &twin_ex.panic {
                out.violate("panic", "C04|panic|twin".into(), format!("crash-free twin failed: {p}"), json!({"workload_seed": seed}));
                return out;
            }
            let mut r = Rng::new(seed ^ 0x5eed);
            let scns = workload_scenarios(&s0, &mut r, all_points);
            let mut h = Fnv::new();
            let mut kinds: BTreeSet<String> = BTreeSet::new();
            for (pi, s) in scns.iter().enumerate() {
                let ex = execute(s);
                let before = out.violations.len();
                check(s, &ex, &twin, s0.steps, &mut out);
                for v in out.violations[before..].iter_mut() {
                    v.witness["workload_seed"] = json!(seed);
                    v.witness["point_index"] = json!(pi);
                    v.witness["all_points"] = json!(all_points);
                }
                out.count("executions", 1);
                kinds.insert(format!("{:?}", s.inject).split(' ').next().unwrap().to_string());
                h.write_u64(ex.evs.len() as u64);
                h.write_str(&format!("{:?}", s.inject));
            }
            for k in kinds {
                out.saw("injection_kinds", k);
            }
            if s0.two_targets {
                out.count("regex_multi_host_workloads", 1);
            }
            out.digest = h.finish();
            out.nontrivial = scns.len() >= 5;
            out.sample = Some(json!({
                "workload": format!("{s0:?}"), "crash_points": scns.len(), "all_points_enumerated": all_points,
                "example_injection": scns.first().map(|s| format!("{:?}", s.inject)),
                "twin_isolated_pair_events": twin.len(),
            }));
            out
        },
    );
    vcore::finish(ctx, report, fin());
}

fn fin() -> Finish<'static> {
    Finish {
        level: "fault_enumeration",
        rule: "workloads (seeded: tick, fixed latency, 3-6 peer streams with different connect times / think times, accept gap so SYNs queue, UDP unicast+multicast pings, background ticker + fs + io_uring tasks on the target, a window-limited bulk download with a slow reader, isolated pair c<->d with TCP/UDP/fs/clock samples, optionally two targets crashed by regex) x an injection after every step of the run (thorough: every step; quick: ~45% of the steps) drawn from {crash, crash+bounce after 0/1/2-6 steps, bounce without crash, bounce then crash 0-4 steps later, two crash/bounce cycles}; evaluations = workloads, executions counted separately; non-trivial = workload with >=5 injection points; distinct = digest of (injections, log sizes)",
        assumptions: vec![
            "fixed latency and fixed node order so that the shared world rng cannot legitimately couple the isolated pair to the crashed host (twin comparison)".into(),
            "hosts whose main future already returned are never crashed".into(),
            "prompt = latency + 2 steps for parked readers, 2 steps for queued connectors".into(),
        ],
        min_distinct: 10,
        required_counters: vec!["crash_points", "bounces", "peers_parked_in_read_at_crash", "peers_unblocked_promptly", "queued_connectors_refused", "handshakes_in_flight_at_crash", "stale_syns_refused", "datagrams_reaching_down_host", "rebinds_after_bounce", "down_step_observations", "isolated_pair_events_compared", "regex_multi_host_workloads", "regex_crash_with_one_target_already_down", "bulk_streams_ended_after_crash", "uploads_open_at_crash", "upload_writers_parked_on_full_window_at_crash", "uploads_with_window_in_flight_at_crash", "upload_writers_unblocked", "incarnation_fd_tables_observed", "target_dialled_streams_open_at_crash", "target_dialled_streams_accepted_in_the_crash_step", "acceptor_writers_parked_on_full_window_at_crash"],
    }
}
