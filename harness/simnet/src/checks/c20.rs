//! C20 — barriers observe every matching trigger once and suspend only when
//! asked.
//!
//! History: tasks on several hosts call trigger / trigger_noop with unique
//! values (log: call, return, progress counters); the controller creates and
//! drops barriers between steps (overlapping conditions, all three reactions),
//! drains every barrier's `wait()` with a no-op waker after every step and
//! drops `Triggered` handles at chosen steps; one total order. Oracle: the
//! earliest-created live matching barrier gets the report, exactly once, in
//! call order; Suspend holds the caller until the handle is dropped; Noop and
//! unmatched triggers return in the same poll; Panic surfaces as a panic of the
//! stepping test. Plus the synchronous FsCorruption trigger path.

use crate::rec::{self, Log};
use crate::util::{self, epoch};
use serde_json::json;
use std::collections::{BTreeMap, BTreeSet};
use std::os::unix::fs::FileExt;
use std::time::Duration;
use turmoil::barriers::{trigger, trigger_noop, Barrier, Reaction, Triggered};
use turmoil::fs::shim::std::fs as sfs;
use turmoil::fs::FsCorruption;
use vcore::{Ctx, Finish, Fnv, Rng, RunOpts, ScenarioOut};

#[derive(Clone, Debug, PartialEq)]
struct Tv {
    id: u64,
    class: u8,
}

#[derive(Clone, Copy, Debug, PartialEq)]
enum Rx {
    Noop,
    Suspend,
    Panic,
}

#[derive(Clone, Debug)]
enum Act {
    Create { k: usize, rx: Rx, classes: Vec<u8> },
    DropBarrier { k: usize },
}

#[derive(Clone, Debug)]
struct TaskSpec {
    host: usize,
    /// (gap ms before the call, class, noop variant)
    calls: Vec<(u64, u8, bool)>,
}

#[derive(Clone, Debug)]
struct Scn {
    tick_ms: u64,
    rng_seed: u64,
    nhosts: usize,
    tasks: Vec<TaskSpec>,
    acts: Vec<(u64, Act)>, // after step k
    /// drop a Suspend handle this many steps after it was received
    handle_hold: Vec<u64>,
    steps: u64,
    random_order: bool,
    /// flood: reports are only drained at the very end (a barrier may have thousands queued)
    flood: bool,
}

#[derive(Clone, Debug)]
enum Ev {
    Create { k: usize, rx: Rx, classes: Vec<u8> },
    DropBarrier { k: usize },
    Call { id: u64, class: u8, noop: bool, task: usize },
    Ret { id: u64, task: usize },
    Report { k: usize, id: u64, class: u8 },
    DropHandle { id: u64 },
    Panicked { msg: String },
}

fn gen(seed: u64) -> Scn {
    let mut r = Rng::new(seed);
    let tick_ms = r.pick_copy(&[1u64, 2, 5]);
    let nhosts = r.range(1, 3) as usize;
    let steps = r.range(25, 60);
    let horizon = steps * tick_ms;
    let with_panic = r.chance(0.15);
    let mut tasks = vec![];
    for _ in 0..r.range(1, 5) {
        let mut calls = vec![];
        let mut t = 0;
        loop {
            let gap = r.range(0, 9);
            t += gap;
            if t > horizon * 3 / 4 || calls.len() > 14 {
                break;
            }
            // classes 0..=3: async trigger(); 4..=5: trigger_noop() (only Noop barriers match them)
            if r.chance(0.25) {
                calls.push((gap, 4 + r.below(2) as u8, true));
            } else {
                calls.push((gap, r.below(4) as u8, false));
            }
        }
        tasks.push(TaskSpec { host: r.usize_below(nhosts), calls });
    }
    let mut acts = vec![];
    let mut live: Vec<usize> = vec![];
    let mut k = 0usize;
    let mut at = 0u64;
    for _ in 0..r.range(1, 7) {
        at += if acts.is_empty() { 0 } else { r.range(0, steps / 3) };
        if at >= steps {
            break;
        }
        if !live.is_empty() && r.chance(0.35) {
            let i = r.usize_below(live.len());
            acts.push((at, Act::DropBarrier { k: live.remove(i) }));
        } else {
            let rx = match r.below(10) {
                0..=3 => Rx::Noop,
                4..=8 => Rx::Suspend,
                _ => {
                    if with_panic {
                        Rx::Panic
                    } else {
                        Rx::Suspend
                    }
                }
            };
            let mut classes: Vec<u8> = (0..4u8).filter(|_| r.chance(0.45)).collect();
            if rx == Rx::Noop {
                classes.extend((4..6u8).filter(|_| r.chance(0.6)));
            }
            if classes.is_empty() {
                classes.push(r.below(4) as u8);
            }
            acts.push((at, Act::Create { k, rx, classes }));
            live.push(k);
            k += 1;
        }
    }
    Scn {
        tick_ms,
        rng_seed: r.next_u64(),
        nhosts,
        tasks,
        acts,
        handle_hold: (0..8).map(|_| r.pick_copy(&[0u64, 0, 1, 2, 5, 1000])).collect(),
        steps,
        random_order: r.coin(),
        flood: false,
    }
}

/// Thousands of triggers hit undrained Noop barriers: none may block, none may be lost.
fn gen_flood(seed: u64) -> Scn {
    let mut r = Rng::new(seed);
    let n = r.range(1100, 2600) as usize;
    let mk = |noop: bool, class: u8| TaskSpec { host: 0, calls: (0..n).map(|i| (if i % 500 == 499 { 1 } else { 0 }, class, noop)).collect() };
    Scn {
        tick_ms: 1,
        rng_seed: r.next_u64(),
        nhosts: 1,
        tasks: vec![mk(false, 0), mk(true, 4)],
        acts: vec![(0, Act::Create { k: 0, rx: Rx::Noop, classes: vec![0] }), (0, Act::Create { k: 1, rx: Rx::Noop, classes: vec![4] })],
        handle_hold: vec![0],
        steps: 12,
        random_order: false,
        flood: true,
    }
}

fn scenario(s: Scn) -> ScenarioOut {
    let mut out = ScenarioOut::default();
    let log: Log<Ev> = Log::new();
    rec::set_step(0);
    let mut b = turmoil::Builder::new();
    b.tick_duration(Duration::from_millis(s.tick_ms)).epoch(epoch(0)).rng_seed(s.rng_seed).simulation_duration(Duration::from_secs(100_000));
    if s.random_order {
        b.enable_random_order();
    }
    let mut sim = b.build();
    for h in 0..s.nhosts {
        let (log, sc) = (log.clone(), s.clone());
        sim.host(format!("h{h}"), move || {
            let (log, sc) = (log.clone(), sc.clone());
            async move {
                for (ti, t) in sc.tasks.iter().enumerate() {
                    if t.host != h {
                        continue;
                    }
                    let (log, t) = (log.clone(), t.clone());
                    tokio::task::spawn_local(async move {
                        for (ci, (gap, class, noop)) in t.calls.iter().enumerate() {
                            tokio::time::sleep(Duration::from_millis(*gap)).await;
                            let id = (ti as u64) * 1_000_000 + ci as u64;
                            log.push(Ev::Call { id, class: *class, noop: *noop, task: ti });
                            if *noop {
                                trigger_noop(Tv { id, class: *class });
                            } else {
                                trigger(Tv { id, class: *class }).await;
                            }
                            log.push(Ev::Ret { id, task: ti });
                        }
                    });
                }
                std::future::pending::<()>().await;
                Ok(())
            }
        });
    }
    let mut barriers: BTreeMap<usize, Barrier<Tv>> = BTreeMap::new();
    let mut handles: Vec<(u64, u64, Triggered<Tv>)> = vec![]; // (id, drop at step, handle)
    let mut nh = 0usize;
    let mut panicked = false;
    for k in 0..=s.steps {
        // drain reports of every live barrier, in creation order
        for (bk, bar) in barriers.iter_mut().filter(|_| !s.flood) {
            loop {
                let mut fut = Box::pin(bar.wait());
                match util::poll_once(&mut fut) {
                    std::task::Poll::Ready(Some(t)) => {
                        log.push(Ev::Report { k: *bk, id: t.id, class: t.class });
                        let hold = s.handle_hold[nh % s.handle_hold.len()];
                        nh += 1;
                        handles.push((t.id, k + hold, t));
                    }
                    _ => break,
                }
            }
        }
        // drop handles that are due
        let mut i = 0;
        while i < handles.len() {
            if handles[i].1 <= k {
                let (id, _, h) = handles.remove(i);
                log.push(Ev::DropHandle { id });
                drop(h);
            } else {
                i += 1;
            }
        }
        for (at, a) in &s.acts {
            if *at == k {
                match a {
                    Act::Create { k: bk, rx, classes } => {
                        let cs = classes.clone();
                        let reaction = match rx {
                            Rx::Noop => Reaction::Noop,
                            Rx::Suspend => Reaction::Suspend,
                            Rx::Panic => Reaction::Panic,
                        };
                        log.push(Ev::Create { k: *bk, rx: *rx, classes: classes.clone() });
                        barriers.insert(*bk, Barrier::build(reaction, move |t: &Tv| cs.contains(&t.class)));
                    }
                    Act::DropBarrier { k: bk } => {
                        log.push(Ev::DropBarrier { k: *bk });
                        barriers.remove(bk);
                    }
                }
            }
        }
        if k == s.steps {
            break;
        }
        match util::step_catch(&mut sim) {
            Err(p) => {
                log.push(Ev::Panicked { msg: p });
                panicked = true;
                break;
            }
            Ok(Err(e)) => {
                log.push(Ev::Panicked { msg: format!("step error {e}") });
                panicked = true;
                break;
            }
            Ok(Ok(_)) => {}
        }
    }
    // final drain (reports made during the last step; also after a panic)
    {
        for (bk, bar) in barriers.iter_mut() {
            loop {
                let mut fut = Box::pin(bar.wait());
                match util::poll_once(&mut fut) {
                    std::task::Poll::Ready(Some(t)) => {
                        log.push(Ev::Report { k: *bk, id: t.id, class: t.class });
                        handles.push((t.id, u64::MAX, t));
                    }
                    _ => break,
                }
            }
        }
    }
    drop(handles);
    drop(barriers);
    drop(sim);
    let evs = log.take();
    // ---- oracle ------------------------------------------------------------
    let desc = if s.flood { json!({"scenario": "flood", "calls_per_task": s.tasks[0].calls.len()}) } else { json!({"scenario": format!("{s:?}")}) };
    let mut live: Vec<(usize, Rx, Vec<u8>)> = vec![]; // creation order
    let mut expect: BTreeMap<u64, (usize, Rx)> = BTreeMap::new(); // id -> (barrier, reaction)
    let mut call_pos: BTreeMap<u64, (usize, u64)> = BTreeMap::new();
    let mut ret_pos: BTreeMap<u64, (usize, u64)> = BTreeMap::new();
    let mut reports: BTreeMap<u64, Vec<(usize, usize)>> = BTreeMap::new(); // id -> [(barrier, pos)]
    let mut per_barrier: BTreeMap<usize, Vec<u64>> = BTreeMap::new();
    let mut drop_pos: BTreeMap<u64, (usize, u64)> = BTreeMap::new();
    let mut expect_panic_call: Option<u64> = None;
    let mut calls_in_order: Vec<u64> = vec![];
    for (p, (step, e)) in evs.iter().enumerate() {
        match e {
            Ev::Create { k, rx, classes } => live.push((*k, *rx, classes.clone())),
            Ev::DropBarrier { k } => live.retain(|b| b.0 != *k),
            Ev::Call { id, class, .. } => {
                call_pos.insert(*id, (p, *step));
                calls_in_order.push(*id);
                if let Some((k, rx, _)) = live.iter().find(|b| b.2.contains(class)) {
                    expect.insert(*id, (*k, *rx));
                    out.count(&format!("calls_matching_{rx:?}").to_lowercase(), 1);
                    if *rx == Rx::Panic && expect_panic_call.is_none() {
                        expect_panic_call = Some(*id);
                    }
                    if live.iter().filter(|b| b.2.contains(class)).count() > 1 {
                        out.count("calls_matching_several_barriers", 1);
                    }
                } else {
                    out.count("calls_matching_no_barrier", 1);
                }
            }
            Ev::Ret { id, .. } => {
                ret_pos.insert(*id, (p, *step));
            }
            Ev::Report { k, id, .. } => {
                reports.entry(*id).or_default().push((*k, p));
                per_barrier.entry(*k).or_default().push(*id);
            }
            Ev::DropHandle { id } => {
                drop_pos.insert(*id, (p, *step));
            }
            Ev::Panicked { msg } => {
                out.count("panics_surfaced", 1);
                if expect_panic_call.is_none() {
                    out.violate("unexpected-panic", "C20|unexpected-panic".into(), format!("step panicked ({msg}) although no trigger matched a Panic barrier"), desc.clone());
                }
            }
        }
    }
    if let Some(id) = expect_panic_call {
        if !panicked {
            out.violate("panic-missing", "C20|panic-missing".into(), format!("trigger #{id} matched a Panic barrier first but no panic surfaced from step"), desc.clone());
        }
    }
    let last_step = evs.last().map(|e| e.0).unwrap_or(0);
    for id in &calls_in_order {
        let (cp, cstep) = call_pos[id];
        let exp = expect.get(id);
        // triggers made after the panic point are outside the oracle (the host is gone); the
        // trigger that hit the Panic barrier is itself a matching trigger: reported exactly once
        if let Some(pid) = expect_panic_call {
            if call_pos[&pid].0 < cp {
                continue;
            }
            if pid == *id {
                let got = reports.get(id).cloned().unwrap_or_default();
                let k = exp.map(|e| e.0).unwrap_or(usize::MAX);
                out.count("panic_barrier_hits", 1);
                if panicked && (got.len() != 1 || got[0].0 != k) {
                    let class = if got.is_empty() { "report-missing" } else if got.len() > 1 { "reported-twice" } else { "reported-to-wrong-barrier" };
                    out.violate(class, format!("C20|{class}|Panic"), format!("trigger #{id} (step {cstep}) hit Panic barrier {k} and panicked its caller, but the barrier's reports for it are {got:?} (expected exactly one)"), desc.clone());
                } else if panicked {
                    out.count("panic_barrier_hits_reported_once", 1);
                }
                continue;
            }
        }
        let got = reports.get(id).cloned().unwrap_or_default();
        match exp {
            None => {
                if !got.is_empty() {
                    out.violate("reported-without-match", "C20|reported-without-match".into(), format!("trigger #{id} matched no live barrier but was reported to {got:?}"), desc.clone());
                }
                if ret_pos.get(id).map(|r| r.0) != Some(cp + 1) {
                    out.violate("unmatched-trigger-did-not-return-immediately", "C20|unmatched-blocked".into(), format!("trigger #{id} (no live matching barrier) did not return in the same poll: call pos {cp}, return {:?}", ret_pos.get(id)), desc.clone());
                }
            }
            Some((k, rx)) => {
                if got.len() != 1 || got[0].0 != *k {
                    let class = if got.is_empty() { "report-missing" } else if got.len() > 1 { "reported-twice" } else { "reported-to-wrong-barrier" };
                    // a report made in the very last step is drained at the end; anything else is a miss
                    out.violate(class, format!("C20|{class}|{rx:?}"), format!("trigger #{id} (step {cstep}) must be reported exactly once to barrier {k} ({rx:?}, earliest-created live match); reports: {got:?}"), desc.clone());
                    continue;
                }
                out.count("reports_checked", 1);
                match rx {
                    Rx::Noop => {
                        if ret_pos.get(id).map(|r| r.0) != Some(cp + 1) {
                            out.violate("noop-blocked", "C20|noop-blocked".into(), format!("trigger #{id} matched Noop barrier {k} but did not return in the same poll (call pos {cp}, return {:?})", ret_pos.get(id)), desc.clone());
                        }
                    }
                    Rx::Suspend => {
                        out.count("suspensions_observed", 1);
                        match (drop_pos.get(id), ret_pos.get(id)) {
                            (None, Some(r)) => out.violate("suspend-not-held", "C20|suspend-not-held|never-dropped".into(), format!("trigger #{id} suspended by barrier {k} returned at pos {} although its handle was never dropped", r.0), desc.clone()),
                            (Some(d), Some(r)) => {
                                if r.0 < d.0 {
                                    out.violate("suspend-not-held", "C20|suspend-not-held|before-drop".into(), format!("trigger #{id} suspended by barrier {k} returned (pos {}) before its handle was dropped (pos {})", r.0, d.0), desc.clone());
                                } else if r.1 > d.1 + 1 {
                                    out.violate("resume-late", "C20|resume-late".into(), format!("trigger #{id}: handle dropped after step {}, caller resumed only in step {}", d.1, r.1), desc.clone());
                                } else {
                                    out.count("resumes_observed", 1);
                                }
                            }
                            (Some(d), None) => {
                                if d.1 + 1 < last_step {
                                    out.violate("resume-missing", "C20|resume-missing".into(), format!("trigger #{id}: handle dropped after step {} but the caller never resumed ({} steps run)", d.1, last_step), desc.clone());
                                }
                            }
                            (None, None) => out.count("suspended_until_end", 1),
                        }
                    }
                    Rx::Panic => {}
                }
            }
        }
    }
    // per barrier: reports in trigger-call order
    for (k, ids) in &per_barrier {
        let pos: Vec<usize> = ids.iter().map(|i| call_pos.get(i).map(|c| c.0).unwrap_or(0)).collect();
        if pos.windows(2).any(|w| w[0] > w[1]) {
            out.violate("reports-out-of-order", "C20|reports-out-of-order".into(), format!("barrier {k} reported triggers {ids:?} not in call order (call positions {pos:?})"), desc.clone());
        }
    }
    // per task: a suspended task makes no further calls
    let mut h = Fnv::new();
    for (st, e) in &evs {
        h.write_u64(*st);
        h.write_str(&format!("{e:?}"));
    }
    out.digest = h.finish();
    out.nontrivial = reports.len() >= 2;
    out.sample = Some(json!({
        "tick_ms": s.tick_ms, "hosts": s.nhosts, "tasks": s.tasks.len(), "barrier_actions": s.acts.iter().map(|a| format!("{a:?}")).collect::<Vec<_>>(),
        "log_excerpt": evs.iter().take(16).map(|e| format!("step {}: {:?}", e.0, e.1)).collect::<Vec<_>>(),
    }));
    out
}

/// Synchronous trigger path: the filesystem corruption hook.
fn corruption_scenario(seed: u64) -> ScenarioOut {
    corruption_scenario_sized(seed, None)
}

/// A Panic barrier on the corruption trigger: the corrupted read panics its caller (which may
/// catch it); the barrier is told once; the host's filesystem stays usable, also after the
/// barrier has been dropped.
fn corruption_panic_scenario(seed: u64) -> ScenarioOut {
    use std::cell::RefCell;
    use std::rc::Rc;
    let mut out = ScenarioOut::default();
    let mut r = Rng::new(seed);
    rec::set_step(0);
    let mut b = turmoil::Builder::new();
    b.epoch(epoch(0)).rng_seed(seed).simulation_duration(Duration::from_secs(1000));
    b.fs().corruption_probability(1.0);
    let mut sim = b.build();
    let nfiles = r.range(1, 2) as usize;
    // with two files the Panic barrier matches the first file only and a later-created Noop
    // observer matches everything: corrupted reads of the second file, issued in the same host
    // turn right after the caught panic, must still be reported to the observer
    let sibling = nfiles == 2;
    let mut bar: Barrier<FsCorruption> = if sibling {
        Barrier::build(Reaction::Panic, |c: &FsCorruption| c.path.ends_with("f0"))
    } else {
        Barrier::build(Reaction::Panic, |_c: &FsCorruption| true)
    };
    let mut observer: Option<Barrier<FsCorruption>> = if sibling { Some(Barrier::new(|_c: &FsCorruption| true)) } else { None };
    let same_turn_reads = if sibling { r.range(1, 3) } else { 0 };
    // the triggering read goes through the handle's cursor (std::io::Read) or is positional
    let cursor_read = r.coin();
    let obs: Rc<RefCell<Vec<String>>> = Rc::new(RefCell::new(vec![]));
    let phase = Rc::new(std::cell::Cell::new(0u32));
    let (o2, ph2) = (obs.clone(), phase.clone());
    sim.client("fs", async move {
        sfs::create_dir_all("/d")?;
        let mut files: Vec<sfs::File> = (0..nfiles).map(|i| sfs::OpenOptions::new().read(true).write(true).create(true).open(format!("/d/f{i}")).unwrap()).collect();
        for f in &files {
            f.write_all_at(b"0123456789abcdef", 0)?;
        }
        // the corrupted read panics; the caller catches it and carries on
        let res = std::panic::catch_unwind(std::panic::AssertUnwindSafe(|| {
            let mut buf = [0u8; 8];
            if cursor_read {
                std::io::Read::read(&mut files[0], &mut buf)
            } else {
                files[0].read_at(&mut buf, 2)
            }
        }));
        o2.borrow_mut().push(format!("read: {}", if res.is_err() { "panicked" } else { "returned" }));
        // more corrupted reads in the same host turn, of a file the Panic barrier does not match
        for k in 0..same_turn_reads {
            let mut buf = [0u8; 4];
            let r2 = std::panic::catch_unwind(std::panic::AssertUnwindSafe(|| files[1].read_at(&mut buf, k)));
            o2.borrow_mut().push(format!("sibling read: {}", match r2 { Err(_) => "panicked".to_string(), Ok(r) => format!("{:?}", r.map_err(|e| e.kind())) }));
        }
        // unrelated fs calls that trigger nothing
        let m = std::panic::catch_unwind(|| sfs::metadata("/d/f0").map(|m| m.len()).map_err(|e| e.kind()));
        o2.borrow_mut().push(format!("metadata: {m:?}"));
        ph2.set(1);
        while ph2.get() != 2 {
            tokio::time::sleep(Duration::from_millis(1)).await;
        }
        // the barrier is gone: a corrupted read returns (corrupted) data again
        let res = std::panic::catch_unwind(std::panic::AssertUnwindSafe(|| {
            let mut buf = [0u8; 8];
            if cursor_read {
                // the same handle, through its cursor again (seek + read)
                std::io::Seek::seek(&mut files[0], std::io::SeekFrom::Start(0)).and_then(|_| std::io::Read::read(&mut files[0], &mut buf))
            } else {
                files[0].read_at(&mut buf, 0)
            }
        }));
        o2.borrow_mut().push(format!("read after barrier drop: {}", match res { Err(_) => "panicked".to_string(), Ok(r) => format!("{:?}", r.map_err(|e| e.kind())) }));
        Ok(())
    });
    let desc = json!({"corruption_panic_seed": seed});
    let mut reports = 0;
    let mut guard = 0;
    while phase.get() != 1 && guard < 100 {
        guard += 1;
        if let Err(p) = util::step_catch(&mut sim) {
            out.violate("fs-panic-escaped", "C20|fs|panic-escaped".into(), format!("the caught barrier panic still took the step down: {p}"), desc.clone());
            return out;
        }
    }
    loop {
        let mut fut = Box::pin(bar.wait());
        match util::poll_once(&mut fut) {
            std::task::Poll::Ready(Some(_)) => reports += 1,
            _ => break,
        }
    }
    drop(bar);
    let mut observer_reports: Vec<String> = vec![];
    if let Some(ob) = observer.as_mut() {
        loop {
            let mut fut = Box::pin(ob.wait());
            match util::poll_once(&mut fut) {
                std::task::Poll::Ready(Some(t)) => observer_reports.push(t.path.display().to_string()),
                _ => break,
            }
        }
    }
    drop(observer);
    phase.set(2);
    for _ in 0..10 {
        if let Ok(Ok(true)) = util::step_catch(&mut sim) {
            break;
        }
    }
    drop(sim);
    let _ = vcore::take_last_panic();
    let o = obs.borrow().clone();
    out.count("fs_panic_barrier_scenarios", 1);
    if cursor_read {
        out.count("fs_panic_barrier_cursor_reads", 1);
    }
    let mut want = vec!["read: panicked".to_string()];
    for _ in 0..same_turn_reads {
        want.push("sibling read: Ok(4)".to_string());
    }
    want.extend(["metadata: Ok(Ok(16))".to_string(), "read after barrier drop: Ok(8)".to_string()]);
    if sibling {
        out.count("fs_panic_barrier_scenarios_with_sibling_reads_in_the_same_turn", 1);
        let want_obs: Vec<String> = (0..same_turn_reads).map(|_| "/d/f1".to_string()).collect();
        if observer_reports != want_obs {
            out.violate(
                if observer_reports.len() < want_obs.len() { "fs-report-missing" } else { "fs-report-extra" },
                "C20|fs|observer-after-caught-panic".into(),
                format!("after a Panic barrier on /d/f0 unwound a read (caught by the caller), {same_turn_reads} corrupted read(s) of /d/f1 in the same host turn were reported to the live observer as {observer_reports:?}, expected {want_obs:?}"),
                desc.clone(),
            );
        }
    }
    if o != want {
        out.violate("fs-panic-barrier", "C20|fs|panic-barrier-aftermath".into(), format!("Panic barrier on FsCorruption: observed {o:?}, expected {want:?}"), desc.clone());
    }
    if reports != 1 {
        out.violate(if reports == 0 { "fs-report-missing" } else { "fs-report-extra" }, "C20|fs|panic-barrier-report-count".into(), format!("the Panic barrier was hit once and was told {reports} times"), desc.clone());
    }
    out.digest = vcore::digest_str(&format!("fspanic{nfiles}{seed}"));
    out.nontrivial = true;
    out.sample = Some(json!({"fs_panic_barrier": o}));
    out
}

fn corruption_scenario_sized(seed: u64, max_reads: Option<u64>) -> ScenarioOut {
    let mut out = ScenarioOut::default();
    let mut r = Rng::new(seed);
    let prob = r.pick_copy(&[1.0f64, 1.0, 0.5]);
    let log: Log<(String, u64, Vec<u64>)> = Log::new(); // (path, read offset, differing absolute offsets)
    rec::set_step(0);
    let mut b = turmoil::Builder::new();
    b.epoch(epoch(0)).rng_seed(seed).simulation_duration(Duration::from_secs(1000));
    b.fs().corruption_probability(prob);
    let mut sim = b.build();
    let nreads = r.range(3, 30).min(max_reads.unwrap_or(u64::MAX));
    let plan: Vec<(usize, u64, usize)> = (0..nreads).map(|_| (r.usize_below(2), r.range(0, 200), r.range(1, 64) as usize)).collect();
    let observed_path = if r.coin() { Some(0usize) } else { None };
    // a second barrier of the same trigger type that is dropped before anything happens
    // (created before or after the observing one): dropping it must not affect the other
    let extra_mode = r.below(3); // 0 none, 1 created first, 2 created second
    let mut extra: Option<Barrier<FsCorruption>> = if extra_mode == 1 { Some(Barrier::new(|c: &FsCorruption| c.path.ends_with("f1"))) } else { None };
    let mut bar: Barrier<FsCorruption> = match observed_path {
        Some(_) => Barrier::new(|c: &FsCorruption| c.path.ends_with("f0")),
        None => Barrier::new(|_c: &FsCorruption| true),
    };
    if extra_mode == 2 {
        extra = Some(Barrier::new(|c: &FsCorruption| c.path.ends_with("f1")));
    }
    if extra.take().is_some() {
        out.count("fs_sibling_barriers_dropped_before_the_run", 1);
    }
    let lg = log.clone();
    let pl = plan.clone();
    sim.client("fs", async move {
        sfs::create_dir_all("/d")?;
        let content: Vec<u8> = (0..256u32).map(|i| (i * 7 + 3) as u8).collect();
        let files: Vec<sfs::File> = (0..2).map(|i| sfs::OpenOptions::new().read(true).write(true).create(true).open(format!("/d/f{i}")).unwrap()).collect();
        for f in &files {
            f.write_all_at(&content, 0)?;
        }
        for (fi, off, len) in pl {
            let mut buf = vec![0u8; len];
            let n = files[fi].read_at(&mut buf, off)?;
            let diffs: Vec<u64> = (0..n).filter(|i| buf[*i] != content[off as usize + *i]).map(|i| off + i as u64).collect();
            lg.push((format!("/d/f{fi}"), off, diffs));
            tokio::time::sleep(Duration::from_millis(1)).await;
        }
        Ok(())
    });
    let res = std::panic::catch_unwind(std::panic::AssertUnwindSafe(|| sim.run()));
    let mut reports: Vec<(String, u64, usize)> = vec![];
    loop {
        let mut fut = Box::pin(bar.wait());
        match util::poll_once(&mut fut) {
            std::task::Poll::Ready(Some(t)) => reports.push((t.path.to_string_lossy().to_string(), t.offset, t.len)),
            _ => break,
        }
    }
    drop(bar);
    drop(sim);
    let desc = json!({"corruption_seed": seed});
    if !matches!(res, Ok(Ok(()))) {
        out.violate("fs-run-failed", "C20|fs|run-failed".into(), format!("corruption scenario did not complete: {:?}", res.map(|r| r.map_err(|e| e.to_string()))), desc.clone());
        return out;
    }
    let reads = log.take();
    let mut want: Vec<(String, u64)> = vec![];
    for (_, (path, off, diffs)) in &reads {
        out.count("fs_reads", 1);
        if diffs.len() > 1 {
            out.violate("fs-multi-corruption", "C20|fs|multi-corruption".into(), format!("one read of {path} at {off} differs at {} offsets {diffs:?}", diffs.len()), desc.clone());
        }
        if let Some(d) = diffs.first() {
            out.count("fs_corrupted_reads", 1);
            if observed_path.is_none() || path.ends_with("f0") {
                want.push((path.clone(), *d));
            }
        }
    }
    let got: Vec<(String, u64)> = reports.iter().map(|r| (r.0.clone(), r.1)).collect();
    out.count("fs_corruption_reports", got.len() as u64);
    if got != want {
        let class = if got.len() < want.len() { "fs-report-missing" } else if got.len() > want.len() { "fs-report-extra" } else { "fs-report-mismatch" };
        out.violate(class, format!("C20|fs|{class}"), format!("corrupted reads (path, offset) {:?} but FsCorruption reports {:?}", vcore::excerpt(&want, 6), vcore::excerpt(&got, 6)), desc.clone());
    }
    out.digest = vcore::digest_str(&format!("{seed}{got:?}"));
    out.nontrivial = got.len() >= 2;
    out.sample = Some(json!({"fs_corruption": {"probability": prob, "reads": reads.len(), "reports": got.len(), "first_reports": vcore::excerpt(&got, 3)}}));
    out
}

/// Small workload executed under Miri (`simnet C20 --miri-child`): the
/// synchronous FsCorruption trigger path goes through a lifetime-erased raw
/// pointer to the hook (`turmoil_fs::enter` / `fire_corruption`), the barrier
/// registry hands boxed `dyn Any` values across tasks.
fn miri_child(ctx: &Ctx) -> ! {
    let mut scenarios = 0u64;
    let mut complaints = 0u64;
    let mut reports = 0u64;
    for i in 0..2u64 {
        let out = corruption_scenario_sized(ctx.scenario_seed("c20miri-fs", i), Some(5));
        scenarios += 1;
        complaints += out.violations.len() as u64;
        reports += out.counters.iter().filter(|c| c.0 == "fs_corruption_reports").map(|c| c.1).sum::<u64>();
    }
    for i in 0..2u64 {
        let mut s = gen(ctx.scenario_seed("c20miri", i));
        s.steps = s.steps.min(10);
        s.tasks.truncate(2);
        let out = scenario(s);
        scenarios += 1;
        complaints += out.violations.len() as u64;
    }
    println!("SAN-CHILD-OK prop=c20 scenarios={scenarios} oracle_complaints={complaints} fs_corruption_reports={reports}");
    std::process::exit(0)
}

/// Thorough tier: run the Miri child; UB -> violation, Miri unavailable -> inconclusive.
fn run_miri(ctx: &Ctx, report: &mut vcore::Report) {
    let t0 = std::time::Instant::now();
    let dir = std::path::PathBuf::from(env!("CARGO_MANIFEST_DIR")).join("..");
    let out = std::process::Command::new("cargo")
        .current_dir(&dir)
        .args(["+nightly", "miri", "run", "--offline", "-q", "-p", "simnet", "--target-dir"])
        .arg(dir.join("target-miri"))
        .args(["--", "C20", "--miri-child"])
        .env("MIRIFLAGS", "-Zmiri-disable-isolation")
        .env("VERIF_SEED", ctx.seed.to_string())
        .env_remove("RUSTFLAGS")
        .output();
    let wall = t0.elapsed().as_secs_f64();
    let (ran, ub, summary, detail) = match out {
        Err(e) => (false, 0, String::new(), format!("cannot spawn cargo miri: {e}")),
        Ok(o) => {
            let so = String::from_utf8_lossy(&o.stdout).to_string();
            let se = String::from_utf8_lossy(&o.stderr).to_string();
            let ub = se.matches("error: Undefined Behavior").count();
            let summary = so.lines().find(|l| l.starts_with("SAN-CHILD-OK")).unwrap_or("").to_string();
            let ran = ub > 0 || (o.status.success() && !summary.is_empty());
            let start = se.find("Undefined Behavior").unwrap_or(se.len().saturating_sub(600));
            (ran, ub, summary, se[start.saturating_sub(7).min(se.len())..].chars().take(1200).collect::<String>())
        }
    };
    report.extra.insert("miri".into(), json!({"ran": ran, "undefined_behaviour_reports": ub, "child_summary": summary, "wall_s": (wall * 10.0).round() / 10.0, "detail": if ub > 0 || !ran { detail.clone() } else { String::new() }}));
    if ub > 0 {
        let v = vcore::Violation {
            class: "miri-undefined-behaviour".into(),
            signature: "C20|miri-undefined-behaviour".into(),
            what: format!("Miri reported undefined behaviour while the barrier / FsCorruption-hook workload ran: {}", detail.lines().next().unwrap_or("")),
            witness: json!({"rerun": "cd /verif/harness && MIRIFLAGS=-Zmiri-disable-isolation cargo +nightly miri run --offline -p simnet --target-dir target-miri -- C20 --miri-child", "detail": detail}),
        };
        report.violation_count += 1;
        report.violations.insert(v.signature.clone(), v);
    } else if !ran {
        report.harness_errors.push(format!("Miri phase could not run: {}", detail.chars().take(300).collect::<String>()));
    }
}

pub fn run(ctx: &Ctx) -> ! {
    if ctx.rest.iter().any(|a| a == "--miri-child") {
        miri_child(ctx);
    }
    if ctx.replay.is_some() {
        let w = vcore::read_replay(ctx).expect("replay file");
        let report = if let Some(seed) = w.get("corruption_panic_seed").and_then(|x| x.as_u64()) {
            vcore::run_single(ctx, move |_| corruption_panic_scenario(seed))
        } else if let Some(seed) = w.get("flood_seed").and_then(|x| x.as_u64()) {
            vcore::run_single(ctx, move |_| scenario(gen_flood(seed)))
        } else if let Some(seed) = w.get("corruption_seed").and_then(|x| x.as_u64()) {
            vcore::run_single(ctx, move |_| corruption_scenario(seed))
        } else {
            let seed = w["scenario_seed"].as_u64().unwrap_or(0);
            vcore::run_single(ctx, move |_| scenario(gen(seed)))
        };
        vcore::finish(ctx, report, fin());
    }
    let n = ctx.pick(40_000u64, 600_000);
    let nfs = ctx.pick(2000u64, 20_000);
    let nflood = ctx.pick(16u64, 300);
    let nfspanic = ctx.pick(40u64, 400);
    let c2 = ctx.clone();
    let report = vcore::run_parallel(
        ctx,
        n + nfs + nflood + nfspanic,
        RunOpts { budget_s: ctx.pick(60.0, 600.0), scenario_timeout_s: 120.0 },
        move |idx| {
            if idx >= n + nfs + nflood {
                let seed = c2.scenario_seed("c20fspanic", idx);
                return corruption_panic_scenario(seed);
            }
            if idx < nflood {
                let seed = c2.scenario_seed("c20flood", idx);
                let mut out = scenario(gen_flood(seed));
                out.count("flood_scenarios", 1);
                for v in out.violations.iter_mut() {
                    v.witness["flood_seed"] = json!(seed);
                    v.signature = format!("{}|flood", v.signature);
                }
                out
            } else if idx < n {
                let seed = c2.scenario_seed("c20", idx);
                let mut out = scenario(gen(seed));
                for v in out.violations.iter_mut() {
                    v.witness["scenario_seed"] = json!(seed);
                }
                out
            } else {
                corruption_scenario(c2.scenario_seed("c20fs", idx))
            }
        },
    );
    let mut report = report;
    if !ctx.quick() {
        run_miri(ctx, &mut report);
    }
    vcore::finish(ctx, report, fin());
}

fn fin() -> Finish<'static> {
    Finish {
        level: "exploration",
        rule: "seeded scenarios: 1-5 triggering tasks on 1-3 hosts calling trigger (classes 0-3) / trigger_noop (classes 4-5) at seeded instants, 1-7 barrier creations / drops between steps (Noop / Suspend / Panic, overlapping class sets), reports drained after every step, Suspend handles dropped after 0/1/2/5 steps or never; plus FsCorruption scenarios (corruption_probability 1.0 / 0.5, barrier on one path or on all, optionally a sibling barrier of the same type created before/after it and dropped again before the run); plus flood scenarios (1100-2600 triggers per barrier drained only at the end); every scenario on a fresh OS thread (thread-local registry); non-trivial = >=2 reports; distinct = digest of the history",
        assumptions: vec![
            "trigger_noop is never aimed at a Suspend barrier (documented panic)".into(),
            "barriers are created and dropped only between steps, so liveness at a trigger call is unambiguous".into(),
            "triggers after a Panic-barrier hit are outside the oracle (the host is gone); the hit itself must be reported once".into(),
        ],
        min_distinct: 100,
        required_counters: vec!["reports_checked", "suspensions_observed", "resumes_observed", "calls_matching_several_barriers", "calls_matching_no_barrier", "panics_surfaced", "fs_corruption_reports", "calls_matching_noop", "flood_scenarios", "fs_sibling_barriers_dropped_before_the_run", "fs_panic_barrier_scenarios", "fs_panic_barrier_cursor_reads", "panic_barrier_hits_reported_once", "fs_panic_barrier_scenarios_with_sibling_reads_in_the_same_turn"],
    }
}
