//! Engine A ("simnet"): scenario runner and monitors for the `turmoil` crate.
mod checks;
mod rec;
mod util;

fn main() {
    let args: Vec<String> = std::env::args().collect();
    let ctx = vcore::Ctx::from_args(&args[1..]);
    vcore::install_quiet_panic_hook();
    match ctx.prop.as_str() {
        "C05" => checks::c05::run(&ctx),
        "C14" => checks::c14::run(&ctx),
        "C01" => checks::c01::run(&ctx),
        "C20" => checks::c20::run(&ctx),
        "C04" => checks::c04::run(&ctx),
        "C09" => checks::c09::run(&ctx),
        "C15" => checks::c15::run(&ctx),
        "C12" => checks::c12::run(&ctx),
        "C02" => checks::c02::run(&ctx),
        "C08" => checks::c08::run(&ctx),
        "C03" => checks::c03::run(&ctx),
        "C11" => checks::c11::run(&ctx),
        other => {
            println!("INCONCLUSIVE property={other} not served by simnet");
            std::process::exit(2);
        }
    }
}
