//! Small helpers shared by simnet checks.

use std::time::{Duration, SystemTime};
use turmoil::Sim;

pub const EPOCH_SECS: u64 = 1_700_000_000;

pub fn epoch(off_secs: u64) -> SystemTime {
    SystemTime::UNIX_EPOCH + Duration::from_secs(EPOCH_SECS + off_secs)
}

pub fn ms(x: u64) -> Duration {
    Duration::from_millis(x)
}
pub fn us(x: u64) -> Duration {
    Duration::from_micros(x)
}

pub fn ns(d: Duration) -> u64 {
    d.as_nanos() as u64
}

/// Step the simulation once, bumping the harness step counter first (so every
/// event emitted during the step is attributed to it).
pub fn step(sim: &mut Sim<'_>) -> turmoil::Result<bool> {
    crate::rec::bump_step();
    sim.step()
}

/// Step, catching a panic of the code under test. `Err(msg)` = panic message.
pub fn step_catch(sim: &mut Sim<'_>) -> Result<turmoil::Result<bool>, String> {
    crate::rec::bump_step();
    let r = std::panic::catch_unwind(std::panic::AssertUnwindSafe(|| sim.step()));
    r.map_err(|p| {
        let m = vcore::panic_message(&*p);
        vcore::take_last_panic().unwrap_or(m)
    })
}

/// Poll a future exactly once with a no-op waker (controller-side polling of
/// e.g. `Barrier::wait` between steps).
pub fn poll_once<F: std::future::Future + Unpin>(f: &mut F) -> std::task::Poll<F::Output> {
    let waker = std::task::Waker::noop();
    let mut cx = std::task::Context::from_waker(waker);
    std::pin::Pin::new(f).poll(&mut cx)
}

/// ceil(a / b) for durations in ns
pub fn ceil_div(a: u64, b: u64) -> u64 {
    a.div_ceil(b)
}
