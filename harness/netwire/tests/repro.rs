//! Standalone minimal reproductions (public API only: fixtures + rules) of
//! the turmoil-net defects found by the C06 / C16 monitors. Each test fails on
//! the tree before its `fix:` commit and passes after it.
//!
//! Run: cargo test --release --offline -p netwire --test repro

use std::cell::Cell;
use std::rc::Rc;
use std::time::Duration;

use tokio::io::{AsyncReadExt, AsyncWriteExt};
use turmoil_net::fixture::ClientServer;
use turmoil_net::shim::tokio::net::{TcpListener, TcpStream};
use turmoil_net::{rule, KernelConfig, Packet, Transport, Verdict};

fn is_pure_ack(p: &Packet) -> bool {
    matches!(&p.payload, Transport::Tcp(s)
        if s.flags.ack && !s.flags.syn && !s.flags.fin && !s.flags.rst && s.payload.is_empty())
}

/// F5: the ACK of a 5-byte segment is lost. The sender retransmits the
/// segment; the receiver must re-ACK the duplicate, otherwise the sender
/// exhausts its retransmit budget and the connection dies with TimedOut
/// although exactly one packet was lost.
#[test]
fn one_lost_ack_must_not_kill_the_connection() {
    ClientServer::new()
        .server("server", async move {
            let l = TcpListener::bind("0.0.0.0:9000").await.unwrap();
            let (mut s, _) = l.accept().await.unwrap();
            let mut buf = [0u8; 10];
            // (server-side panics are not propagated by the fixture; the
            // client side asserts what matters)
            let _ = s.read_exact(&mut buf).await;
            std::future::pending::<()>().await;
        })
        .run("client", async move {
            let mut c = TcpStream::connect("server:9000").await.unwrap();
            // drop the first pure ACK the server sends after the handshake
            let server_ip = c.peer_addr().unwrap().ip();
            let mut dropped = false;
            rule(move |p: &Packet| {
                if !dropped && p.src == server_ip && is_pure_ack(p) {
                    dropped = true;
                    Verdict::Drop
                } else {
                    Verdict::Pass
                }
            })
            .forget();
            c.write_all(b"hello").await.unwrap();
            tokio::time::sleep(Duration::from_millis(40)).await;
            c.write_all(b"world").await.expect("second write after one lost ACK");
            c.shutdown().await.expect("shutdown after one lost ACK");
        });
}

/// The client's handshake ACK is lost and the client has nothing to send.
/// The server child retransmits its SYN-ACK; an Established client must
/// answer it, otherwise accept() never returns although connect() succeeded.
#[test]
fn lost_handshake_ack_must_not_strand_the_server() {
    let got = ClientServer::new()
        .server("server", async move {
            let l = TcpListener::bind("0.0.0.0:9000").await.unwrap();
            let (mut s, _) = l.accept().await.unwrap();
            s.write_all(b"welcome").await.unwrap();
            std::future::pending::<()>().await;
        })
        .run("client", async move {
            let mut dropped = false;
            rule(move |p: &Packet| {
                if !dropped && is_pure_ack(p) {
                    dropped = true; // the very first pure ACK is the handshake ACK
                    Verdict::Drop
                } else {
                    Verdict::Pass
                }
            })
            .forget();
            let mut c = TcpStream::connect("server:9000").await.unwrap();
            let mut buf = [0u8; 7];
            tokio::time::timeout(Duration::from_millis(200), c.read_exact(&mut buf))
                .await
                .map(|r| r.map(|_| buf))
        });
    assert_eq!(&got.expect("server never accepted / wrote").expect("read failed"), b"welcome");
}

/// F6: recv_buf_cap = 8, a 40-byte write, the reader takes one byte at a
/// time. After the first 8 bytes the window is zero; it must be re-opened by
/// the small reads, otherwise the transfer stalls for good without any loss.
#[test]
fn small_reads_must_reopen_a_zero_window() {
    let done = Rc::new(Cell::new(false));
    let d2 = done.clone();
    let n = ClientServer::with_config(KernelConfig::default().recv_buf_cap(8))
        .server("server", async move {
            let l = TcpListener::bind("0.0.0.0:9000").await.unwrap();
            let (mut s, _) = l.accept().await.unwrap();
            let mut got = 0usize;
            let mut b = [0u8; 1];
            while got < 40 {
                let k = s.read(&mut b).await.unwrap();
                assert!(k == 1);
                got += 1;
            }
            d2.set(true);
            std::future::pending::<()>().await;
        })
        .run("client", async move {
            let mut c = TcpStream::connect("server:9000").await.unwrap();
            c.write_all(&[7u8; 40]).await.unwrap();
            for _ in 0..2000 {
                if done.get() {
                    return true;
                }
                tokio::time::sleep(Duration::from_millis(1)).await;
            }
            false
        });
    assert!(n, "reader never received all 40 bytes (stalled behind a zero window)");
}

/// F7: the last ACK of the FIN exchange is lost. The LastAck side retransmits
/// its FIN to a peer that is already fully closed and gets a RST back. RFC 793
/// closes LAST-ACK quietly on a RST; turning it into ConnectionReset (and
/// flushing the receive buffer) loses data the application had not read yet.
#[test]
fn lost_final_ack_must_not_discard_unread_data() {
    let result: Rc<std::cell::RefCell<Option<std::io::Result<Vec<u8>>>>> = Rc::new(std::cell::RefCell::new(None));
    let r2 = result.clone();
    ClientServer::new()
        .server("server", async move {
            let l = TcpListener::bind("0.0.0.0:9000").await.unwrap();
            let (mut s, _) = l.accept().await.unwrap();
            // wait until the client's data and FIN are buffered, close our side
            tokio::time::sleep(Duration::from_millis(10)).await;
            s.shutdown().await.unwrap();
            // read late: by now the FIN retransmission has been answered
            tokio::time::sleep(Duration::from_millis(30)).await;
            let mut got = Vec::new();
            let r = s.read_to_end(&mut got).await.map(|_| got);
            *r2.borrow_mut() = Some(r);
            std::future::pending::<()>().await;
        })
        .run("client", async move {
            let mut c = TcpStream::connect("server:9000").await.unwrap();
            let server_ip = c.peer_addr().unwrap().ip();
            // drop the first pure ACK the client sends after it saw the server's FIN
            let mut fin_seen = false;
            let mut dropped = false;
            rule(move |p: &Packet| {
                if let Transport::Tcp(s) = &p.payload {
                    if p.src == server_ip && s.flags.fin {
                        fin_seen = true;
                    }
                }
                if fin_seen && !dropped && p.src != server_ip && is_pure_ack(p) {
                    dropped = true;
                    return Verdict::Drop;
                }
                Verdict::Pass
            })
            .forget();
            c.write_all(b"hello").await.unwrap();
            c.shutdown().await.unwrap();
            let mut b = [0u8; 1];
            assert_eq!(c.read(&mut b).await.unwrap(), 0);
            drop(c);
            tokio::time::sleep(Duration::from_millis(80)).await;
        });
    let r = result.borrow_mut().take().expect("server never finished reading");
    assert_eq!(r.expect("unread data lost after a single dropped ACK"), b"hello");
}

/// A window update that reopens a zero window is lost. The sender has
/// nothing in flight and a closed window: unless it probes, nothing will
/// ever tell it about the space again and the transfer hangs forever after
/// one lost packet.
#[test]
fn lost_window_update_must_not_hang_the_sender() {
    let done = Rc::new(Cell::new(false));
    let d2 = done.clone();
    let ok = ClientServer::with_config(KernelConfig::default().recv_buf_cap(8))
        .server("server", async move {
            let l = TcpListener::bind("0.0.0.0:9000").await.unwrap();
            let (mut s, _) = l.accept().await.unwrap();
            let mut got = 0usize;
            let mut b = [0u8; 8];
            // let the first 8 bytes fill the buffer (window 0) before reading
            tokio::time::sleep(Duration::from_millis(12)).await;
            while got < 40 {
                match s.read(&mut b).await {
                    Ok(0) | Err(_) => return,
                    Ok(k) => got += k,
                }
            }
            d2.set(true);
            std::future::pending::<()>().await;
        })
        .run("client", async move {
            let mut c = TcpStream::connect("server:9000").await.unwrap();
            let server_ip = c.peer_addr().unwrap().ip();
            // drop the first pure ACK that re-opens a window advertised as zero
            let mut last: Option<(u32, u16)> = None;
            let mut dropped = false;
            rule(move |p: &Packet| {
                if p.src == server_ip && is_pure_ack(p) {
                    let Transport::Tcp(s) = &p.payload else { unreachable!() };
                    let reopen = matches!(last, Some((a, 0)) if a == s.ack) && s.window > 0;
                    last = Some((s.ack, s.window));
                    if reopen && !dropped {
                        dropped = true;
                        return Verdict::Drop;
                    }
                }
                Verdict::Pass
            })
            .forget();
            // exactly one buffer's worth: ACKed in full with a zero window, so
            // the sender is left with nothing in flight and a closed window
            c.write_all(&[7u8; 8]).await.unwrap();
            tokio::time::sleep(Duration::from_millis(6)).await;
            c.write_all(&[7u8; 32]).await.unwrap();
            for _ in 0..2000 {
                if done.get() {
                    return true;
                }
                tokio::time::sleep(Duration::from_millis(1)).await;
            }
            false
        });
    assert!(ok, "transfer hung after one lost window update");
}
