//! Standalone minimal reproductions (public API only: fixtures + rules) of
//! the turmoil-net defects found by the C06 / C16 monitors. Each test fails on
//! the tree before its `fix:` commit and passes after it. The two `#[ignore]`d
//! tests reproduce the *known* (unrepaired) findings: they fail on the current
//! tree (`cargo test ... -- --ignored`).
//!
//! Run: cargo test --release --offline -p netwire --test repro

use std::cell::Cell;
use std::rc::Rc;
use std::time::Duration;

use tokio::io::{AsyncReadExt, AsyncWriteExt};
use turmoil_net::fixture::ClientServer;
use turmoil_net::shim::tokio::net::{TcpListener, TcpStream};
use turmoil_net::{rule, KernelConfig, Packet, Transport, Verdict};

fn is_pure_ack(p: &Packet) -> bool {
    matches!(&p.payload, Transport::Tcp(s)
        if s.flags.ack && !s.flags.syn && !s.flags.fin && !s.flags.rst && s.payload.is_empty())
}

/// F5: the ACK of a 5-byte segment is lost. The sender retransmits the
/// segment; the receiver must re-ACK the duplicate, otherwise the sender
/// exhausts its retransmit budget and the connection dies with TimedOut
/// although exactly one packet was lost.
#[test]
fn one_lost_ack_must_not_kill_the_connection() {
    ClientServer::new()
        .server("server", async move {
            let l = TcpListener::bind("0.0.0.0:9000").await.unwrap();
            let (mut s, _) = l.accept().await.unwrap();
            let mut buf = [0u8; 10];
            // (server-side panics are not propagated by the fixture; the
            // client side asserts what matters)
            let _ = s.read_exact(&mut buf).await;
            std::future::pending::<()>().await;
        })
        .run("client", async move {
            let mut c = TcpStream::connect("server:9000").await.unwrap();
            // drop the first pure ACK the server sends after the handshake
            let server_ip = c.peer_addr().unwrap().ip();
            let mut dropped = false;
            rule(move |p: &Packet| {
                if !dropped && p.src == server_ip && is_pure_ack(p) {
                    dropped = true;
                    Verdict::Drop
                } else {
                    Verdict::Pass
                }
            })
            .forget();
            c.write_all(b"hello").await.unwrap();
            tokio::time::sleep(Duration::from_millis(40)).await;
            c.write_all(b"world").await.expect("second write after one lost ACK");
            c.shutdown().await.expect("shutdown after one lost ACK");
        });
}

/// The client's handshake ACK is lost and the client has nothing to send.
/// The server child retransmits its SYN-ACK; an Established client must
/// answer it, otherwise accept() never returns although connect() succeeded.
#[test]
fn lost_handshake_ack_must_not_strand_the_server() {
    let got = ClientServer::new()
        .server("server", async move {
            let l = TcpListener::bind("0.0.0.0:9000").await.unwrap();
            let (mut s, _) = l.accept().await.unwrap();
            s.write_all(b"welcome").await.unwrap();
            std::future::pending::<()>().await;
        })
        .run("client", async move {
            let mut dropped = false;
            rule(move |p: &Packet| {
                if !dropped && is_pure_ack(p) {
                    dropped = true; // the very first pure ACK is the handshake ACK
                    Verdict::Drop
                } else {
                    Verdict::Pass
                }
            })
            .forget();
            let mut c = TcpStream::connect("server:9000").await.unwrap();
            let mut buf = [0u8; 7];
            tokio::time::timeout(Duration::from_millis(200), c.read_exact(&mut buf))
                .await
                .map(|r| r.map(|_| buf))
        });
    assert_eq!(&got.expect("server never accepted / wrote").expect("read failed"), b"welcome");
}

/// F6: recv_buf_cap = 8, a 40-byte write, the reader takes one byte at a
/// time. After the first 8 bytes the window is zero; it must be re-opened by
/// the small reads, otherwise the transfer stalls for good without any loss.
#[test]
fn small_reads_must_reopen_a_zero_window() {
    let done = Rc::new(Cell::new(false));
    let d2 = done.clone();
    let n = ClientServer::with_config(KernelConfig::default().recv_buf_cap(8))
        .server("server", async move {
            let l = TcpListener::bind("0.0.0.0:9000").await.unwrap();
            let (mut s, _) = l.accept().await.unwrap();
            let mut got = 0usize;
            let mut b = [0u8; 1];
            while got < 40 {
                let k = s.read(&mut b).await.unwrap();
                assert!(k == 1);
                got += 1;
            }
            d2.set(true);
            std::future::pending::<()>().await;
        })
        .run("client", async move {
            let mut c = TcpStream::connect("server:9000").await.unwrap();
            c.write_all(&[7u8; 40]).await.unwrap();
            for _ in 0..2000 {
                if done.get() {
                    return true;
                }
                tokio::time::sleep(Duration::from_millis(1)).await;
            }
            false
        });
    assert!(n, "reader never received all 40 bytes (stalled behind a zero window)");
}

/// F7: the last ACK of the FIN exchange is lost. The LastAck side retransmits
/// its FIN to a peer that is already fully closed and gets a RST back. RFC 793
/// closes LAST-ACK quietly on a RST; turning it into ConnectionReset (and
/// flushing the receive buffer) loses data the application had not read yet.
#[test]
fn lost_final_ack_must_not_discard_unread_data() {
    let result: Rc<std::cell::RefCell<Option<std::io::Result<Vec<u8>>>>> = Rc::new(std::cell::RefCell::new(None));
    let r2 = result.clone();
    ClientServer::new()
        .server("server", async move {
            let l = TcpListener::bind("0.0.0.0:9000").await.unwrap();
            let (mut s, _) = l.accept().await.unwrap();
            // wait until the client's data and FIN are buffered, close our side
            tokio::time::sleep(Duration::from_millis(10)).await;
            s.shutdown().await.unwrap();
            // read late: by now the FIN retransmission has been answered
            tokio::time::sleep(Duration::from_millis(30)).await;
            let mut got = Vec::new();
            let r = s.read_to_end(&mut got).await.map(|_| got);
            *r2.borrow_mut() = Some(r);
            std::future::pending::<()>().await;
        })
        .run("client", async move {
            let mut c = TcpStream::connect("server:9000").await.unwrap();
            let server_ip = c.peer_addr().unwrap().ip();
            // drop the first pure ACK the client sends after it saw the server's FIN
            let mut fin_seen = false;
            let mut dropped = false;
            rule(move |p: &Packet| {
                if let Transport::Tcp(s) = &p.payload {
                    if p.src == server_ip && s.flags.fin {
                        fin_seen = true;
                    }
                }
                if fin_seen && !dropped && p.src != server_ip && is_pure_ack(p) {
                    dropped = true;
                    return Verdict::Drop;
                }
                Verdict::Pass
            })
            .forget();
            c.write_all(b"hello").await.unwrap();
            c.shutdown().await.unwrap();
            let mut b = [0u8; 1];
            assert_eq!(c.read(&mut b).await.unwrap(), 0);
            drop(c);
            tokio::time::sleep(Duration::from_millis(80)).await;
        });
    let r = result.borrow_mut().take().expect("server never finished reading");
    assert_eq!(r.expect("unread data lost after a single dropped ACK"), b"hello");
}

/// A window update that reopens a zero window is lost. The sender has
/// nothing in flight and a closed window: unless it probes, nothing will
/// ever tell it about the space again and the transfer hangs forever after
/// one lost packet.
#[test]
#[ignore = "known finding C06|stall|zero-window-deadlock: not repaired (needs a persist timer = new mechanism); fails on the current tree"]
fn lost_window_update_must_not_hang_the_sender() {
    let done = Rc::new(Cell::new(false));
    let d2 = done.clone();
    let ok = ClientServer::with_config(KernelConfig::default().recv_buf_cap(8))
        .server("server", async move {
            let l = TcpListener::bind("0.0.0.0:9000").await.unwrap();
            let (mut s, _) = l.accept().await.unwrap();
            let mut got = 0usize;
            let mut b = [0u8; 8];
            // let the first 8 bytes fill the buffer (window 0) before reading
            tokio::time::sleep(Duration::from_millis(12)).await;
            while got < 40 {
                match s.read(&mut b).await {
                    Ok(0) | Err(_) => return,
                    Ok(k) => got += k,
                }
            }
            d2.set(true);
            std::future::pending::<()>().await;
        })
        .run("client", async move {
            let mut c = TcpStream::connect("server:9000").await.unwrap();
            let server_ip = c.peer_addr().unwrap().ip();
            // drop the first pure ACK that re-opens a window advertised as zero
            let mut last: Option<(u32, u16)> = None;
            let mut dropped = false;
            rule(move |p: &Packet| {
                if p.src == server_ip && is_pure_ack(p) {
                    let Transport::Tcp(s) = &p.payload else { unreachable!() };
                    let reopen = matches!(last, Some((a, 0)) if a == s.ack) && s.window > 0;
                    last = Some((s.ack, s.window));
                    if reopen && !dropped {
                        dropped = true;
                        return Verdict::Drop;
                    }
                }
                Verdict::Pass
            })
            .forget();
            // exactly one buffer's worth: ACKed in full with a zero window, so
            // the sender is left with nothing in flight and a closed window
            c.write_all(&[7u8; 8]).await.unwrap();
            tokio::time::sleep(Duration::from_millis(6)).await;
            c.write_all(&[7u8; 32]).await.unwrap();
            for _ in 0..2000 {
                if done.get() {
                    return true;
                }
                tokio::time::sleep(Duration::from_millis(1)).await;
            }
            false
        });
    assert!(ok, "transfer hung after one lost window update");
}

// ---------------------------------------------------------------------------
// Manual wire (public primitives: Net::enter / egress_all / deliver /
// set_current) for schedules the rule-based fixtures cannot express.

mod lab {
    use std::future::Future;
    use std::pin::Pin;
    use std::task::{Context, Poll};
    use std::time::Duration;

    use tokio::task::LocalSet;
    use turmoil_net::{EnterGuard, HostId, KernelConfig, Net, Packet};

    pub struct Scoped<F> {
        pub id: HostId,
        pub inner: Pin<Box<F>>,
    }
    impl<F: Future> Future for Scoped<F> {
        type Output = F::Output;
        fn poll(mut self: Pin<&mut Self>, cx: &mut Context<'_>) -> Poll<F::Output> {
            turmoil_net::set_current(self.id);
            self.inner.as_mut().poll(cx)
        }
    }

    pub struct Lab {
        pub rt: tokio::runtime::Runtime,
        pub set: LocalSet,
        pub guard: EnterGuard,
        pub client: HostId,
        pub server: HostId,
    }

    impl Lab {
        pub fn new(cfg: KernelConfig) -> Lab {
            let mut net = Net::with_config(cfg);
            let server = net.add_host("server");
            let client = net.add_host("client");
            let guard = net.enter();
            let rt = tokio::runtime::Builder::new_current_thread()
                .enable_time()
                .start_paused(true)
                .build()
                .unwrap();
            Lab { rt, set: LocalSet::new(), guard, client, server }
        }
        pub fn spawn<F: Future<Output = ()> + 'static>(&self, id: HostId, f: F) {
            self.set.spawn_local(Scoped { id, inner: Box::pin(f) });
        }
        /// Run every task until all of them are parked.
        pub fn settle(&self) {
            self.rt.block_on(async { self.set.run_until(tokio::time::sleep(Duration::from_millis(1))).await });
        }
        /// Tasks to quiescence, then one egress pass on every host.
        pub fn egress(&self) -> Vec<Packet> {
            self.settle();
            let mut out = vec![];
            self.guard.egress_all(&mut out);
            if std::env::var("REPRO_TRACE").is_ok() {
                for p in &out {
                    if let turmoil_net::Transport::Tcp(s) = &p.payload {
                        eprintln!("egress {}:{} -> {} seq={} ack={} win={} len={} fin={} syn={}", p.src, s.src_port, s.dst_port, s.seq & 0xffff, s.ack & 0xffff, s.window, s.payload.len(), s.flags.fin, s.flags.syn);
                    }
                }
                eprintln!("--");
            }
            out
        }
        pub fn deliver_all(&self, pkts: Vec<Packet>) {
            for p in pkts {
                self.guard.deliver(p);
            }
        }
    }
}

fn seg(p: &Packet) -> &turmoil_net::TcpSegment {
    match &p.payload {
        Transport::Tcp(s) => s,
        _ => panic!("tcp expected"),
    }
}

/// Go-back-N rewinds snd_nxt to snd_una. If the peer's window is closed at
/// that moment nothing is re-emitted, and ACKs for the original
/// transmissions, which arrive later, were rejected as "acknowledging more
/// than is in flight": the sender kept retransmitting bytes the receiver
/// already had until it aborted with TimedOut; its FIN, queued behind those
/// bytes, could never be sent again. One packet (the first FIN) is lost here.
#[test]
fn acks_for_segments_sent_before_a_retransmit_rewind_are_valid() {
    use lab::Lab;
    let cfg = KernelConfig::default().mtu(140).recv_buf_cap(100); // MSS 100
    let lab = Lab::new(cfg);
    let result: Rc<std::cell::RefCell<Option<std::io::Result<Vec<u8>>>>> = Rc::new(std::cell::RefCell::new(None));
    let client_result: Rc<std::cell::RefCell<Option<std::io::Result<()>>>> = Rc::new(std::cell::RefCell::new(None));
    let go_read = Rc::new(Cell::new(0usize));
    {
        let (result, go_read) = (result.clone(), go_read.clone());
        lab.spawn(lab.server, async move {
            let l = TcpListener::bind("0.0.0.0:9000").await.unwrap();
            let (mut s, _) = l.accept().await.unwrap();
            let mut got = Vec::new();
            let mut buf = [0u8; 100];
            loop {
                // read only when the test says so (100 bytes at a time)
                while go_read.get() == 0 {
                    tokio::time::sleep(Duration::from_millis(1)).await;
                }
                go_read.set(go_read.get() - 1);
                match s.read(&mut buf).await {
                    Ok(0) => break,
                    Ok(k) => got.extend_from_slice(&buf[..k]),
                    Err(e) => {
                        *result.borrow_mut() = Some(Err(e));
                        return;
                    }
                }
            }
            *result.borrow_mut() = Some(Ok(got));
        });
    }
    {
        let client_result = client_result.clone();
        lab.spawn(lab.client, async move {
            let r = async {
                let mut c = TcpStream::connect("server:9000").await?;
                c.write_all(&[9u8; 300]).await?;
                c.shutdown().await?;
                let mut b = [0u8; 1];
                let _ = c.read(&mut b).await?;
                Ok(())
            }
            .await;
            *client_result.borrow_mut() = Some(r);
        });
    }
    // handshake
    let syn = lab.egress();
    lab.deliver_all(syn);
    let synack = lab.egress();
    lab.deliver_all(synack);
    // client: handshake ACK + three 100-byte segments + FIN (initial window 65535)
    let mut flight = lab.egress();
    assert_eq!(flight.iter().filter(|p| seg(p).payload.len() == 100).count(), 3, "{flight:?}");
    // deliver the handshake ACK and the first segment only; keep seg2 and seg3
    // for later; the FIN behind them is the only packet this test loses
    let mut rest = flight.split_off(2);
    assert!(seg(&rest.pop().unwrap()).flags.fin);
    lab.deliver_all(flight);
    // server ACKs 100 bytes with window 0; client learns: 200 in flight, window closed
    let acks = lab.egress();
    lab.deliver_all(acks.into_iter().filter(|p| p.dst != p.src && seg(p).window == 0).collect());
    // server application reads, the held segments arrive one by one; every
    // server -> client packet from now on is held back on the wire
    let mut held_acks = vec![];
    for p in rest {
        go_read.set(go_read.get() + 1);
        held_acks.extend(lab.egress().into_iter().filter(|q| seg(q).src_port == 9000));
        lab.guard.deliver(p);
    }
    // three more passes: the client's retransmit counter fires and rewinds
    // snd_nxt; its view of the window is 0, so nothing is re-emitted
    for _ in 0..3 {
        held_acks.extend(lab.egress().into_iter().filter(|q| seg(q).src_port == 9000));
    }
    // now the ACKs for the original transmissions arrive
    lab.deliver_all(held_acks);
    // from here on the wire is perfect
    go_read.set(1000);
    for _ in 0..200 {
        let out = lab.egress();
        lab.deliver_all(out);
        if result.borrow().is_some() && client_result.borrow().is_some() {
            break;
        }
    }
    let c = client_result.borrow_mut().take().expect("client never finished");
    c.expect("client failed although only its first FIN was lost");
    let r = result.borrow_mut().take().expect("server never saw EOF");
    assert_eq!(r.expect("server read failed").len(), 300);
}

/// Retransmit attempts spent on the SYN were carried over to the first data
/// segment: after two lost SYNs the first segment had only three retransmits
/// left instead of retx_max = 5, so four losses of it (inside its own budget)
/// aborted the connection with TimedOut.
#[test]
fn syn_retransmits_must_not_eat_the_data_retransmit_budget() {
    let got = Rc::new(Cell::new(false));
    let g2 = got.clone();
    let r = ClientServer::new()
        .server("server", async move {
            let l = TcpListener::bind("0.0.0.0:9000").await.unwrap();
            let (mut s, _) = l.accept().await.unwrap();
            let mut b = [0u8; 1];
            if s.read_exact(&mut b).await.is_ok() {
                g2.set(true);
            }
            std::future::pending::<()>().await;
        })
        .run("client", async move {
            let (mut syns, mut datas) = (0, 0);
            rule(move |p: &Packet| {
                let Transport::Tcp(s) = &p.payload else { return Verdict::Pass };
                if s.flags.syn && !s.flags.ack && syns < 2 {
                    syns += 1;
                    return Verdict::Drop;
                }
                if !s.payload.is_empty() && datas < 4 {
                    datas += 1;
                    return Verdict::Drop;
                }
                Verdict::Pass
            })
            .forget();
            let mut c = TcpStream::connect("server:9000").await?;
            c.write_all(b"x").await?;
            tokio::time::sleep(Duration::from_millis(40)).await;
            // a second write observes an abort of the connection, if any
            c.write_all(b"y").await?;
            c.shutdown().await
        });
    r.expect("connection aborted although neither the SYN nor the segment exhausted its own budget");
    assert!(got.get(), "server never received the byte");
}

/// The client's handshake ACK is lost but its first data segment (which also
/// carries ACK) arrives: it completes the handshake on the server side. Its
/// payload must be processed too instead of being thrown away and waiting for
/// a retransmission.
#[test]
fn data_on_the_segment_that_completes_the_handshake_is_not_discarded() {
    let sent = Rc::new(Cell::new(0u32));
    let s2 = sent.clone();
    let got = Rc::new(Cell::new(false));
    let g2 = got.clone();
    ClientServer::new()
        .server("server", async move {
            let l = TcpListener::bind("0.0.0.0:9000").await.unwrap();
            let (mut s, _) = l.accept().await.unwrap();
            let mut b = [0u8; 5];
            if s.read_exact(&mut b).await.is_ok() && &b == b"hello" {
                g2.set(true);
            }
            std::future::pending::<()>().await;
        })
        .run("client", async move {
            let mut dropped = false;
            rule(move |p: &Packet| {
                let Transport::Tcp(s) = &p.payload else { return Verdict::Pass };
                if !s.payload.is_empty() {
                    s2.set(s2.get() + 1);
                }
                if !dropped && is_pure_ack(p) {
                    dropped = true; // the handshake ACK
                    return Verdict::Drop;
                }
                Verdict::Pass
            })
            .forget();
            let mut c = TcpStream::connect("server:9000").await.unwrap();
            c.write_all(b"hello").await.unwrap();
            tokio::time::sleep(Duration::from_millis(30)).await;
        });
    assert!(got.get(), "server never received the data");
    assert_eq!(sent.get(), 1, "the data segment had to be retransmitted although it was delivered");
}

/// Same lost final ACK as above, but the side that sent it keeps its socket
/// open (the application is still holding the stream). Its TCB is Closed and
/// ignored every retransmitted FIN, so the LastAck peer ran out of
/// retransmits, timed out and flushed data its application had not read yet.
/// A cleanly closed TCB must keep re-ACKing the peer's FIN while it exists
/// (the one TIME_WAIT duty that matters on a lossy fabric).
#[test]
#[ignore = "known finding C06|abort|closed-peer-ignores-fin: not repaired (the design deliberately has no TIME_WAIT); fails on the current tree"]
fn closed_socket_still_acks_a_retransmitted_fin() {
    let result: Rc<std::cell::RefCell<Option<std::io::Result<Vec<u8>>>>> = Rc::new(std::cell::RefCell::new(None));
    let r2 = result.clone();
    ClientServer::new()
        .server("server", async move {
            let l = TcpListener::bind("0.0.0.0:9000").await.unwrap();
            let (mut s, _) = l.accept().await.unwrap();
            tokio::time::sleep(Duration::from_millis(10)).await;
            s.shutdown().await.unwrap();
            // read only after the FIN retransmissions would have run out
            tokio::time::sleep(Duration::from_millis(50)).await;
            let mut got = Vec::new();
            let r = s.read_to_end(&mut got).await.map(|_| got);
            *r2.borrow_mut() = Some(r);
            std::future::pending::<()>().await;
        })
        .run("client", async move {
            let mut c = TcpStream::connect("server:9000").await.unwrap();
            let server_ip = c.peer_addr().unwrap().ip();
            let mut fin_seen = false;
            let mut dropped = false;
            rule(move |p: &Packet| {
                if let Transport::Tcp(s) = &p.payload {
                    if p.src == server_ip && s.flags.fin {
                        fin_seen = true;
                    }
                }
                if fin_seen && !dropped && p.src != server_ip && is_pure_ack(p) {
                    dropped = true;
                    return Verdict::Drop;
                }
                Verdict::Pass
            })
            .forget();
            c.write_all(b"hello").await.unwrap();
            c.shutdown().await.unwrap();
            let mut b = [0u8; 1];
            assert_eq!(c.read(&mut b).await.unwrap(), 0);
            // keep the stream alive: the TCB stays in the table in state Closed
            tokio::time::sleep(Duration::from_millis(120)).await;
            drop(c);
        });
    let r = result.borrow_mut().take().expect("server never finished reading");
    assert_eq!(r.expect("unread data lost after a single dropped ACK"), b"hello");
}
