//! Wire-level root-cause diagnosis for the two *known* (unrepaired) defects.
//!
//! A stall or abort inside the envelope is always reported. When the wire
//! history shows exactly the situation of a known defect, the complaint gets
//! that defect's stable signature (so it is matched against
//! known_findings.json and printed as KNOWN-FINDING); anything else keeps a
//! signature made of class + minimised schedule and is a new VIOLATION.
//!
//! Everything here is computed from packets the driver (or the counting rule
//! of the fixture runs) saw being emitted and delivered — no kernel state.

use turmoil_net::TcpSegment;

use crate::scn::Dir;

#[derive(Clone, Debug, Default)]
pub struct DiagSide {
    pub iss: Option<u32>,
    /// relative end of the payload emitted so far (first byte at 1)
    pub max_data_end: u64,
    /// relative sequence number of this side's FIN, once emitted
    pub fin_rel: Option<u64>,
    pub fin_emits: u32,
    /// this side's FIN reached the peer at least once
    pub fin_delivered: bool,
    /// highest cumulative ACK delivered to this side (relative to its ISN)
    pub a: u64,
    /// window of the last ACK-bearing non-RST segment delivered to this side
    pub w: Option<u32>,
    /// window of the newest advertisement (in the peer's emission order)
    /// delivered to this side, with that order number: what a sender that
    /// ignores overtaken ACKs believes
    pub w_newest: Option<(u64, u32)>,
    /// window of the last delivered ACK that was not older than the highest
    /// ACK delivered before it: what a sender that ignores ACKs lying before
    /// its `snd_una` believes
    pub w_valid: Option<u32>,
    /// window of the last ACK-bearing segment this side emitted
    pub last_win_emitted: Option<u16>,
    /// highest ACK number this side emitted (relative to the peer's ISN)
    pub max_ack_emitted: u64,
    pub rst_seen: bool,
    /// round (driver) / millisecond (fixture runs) of this side's last FIN emission
    pub last_fin_emit_round: u64,
    /// round in which an ACK covering this side's FIN was first delivered to it
    pub fin_cover_round: Option<u64>,
}

#[derive(Clone, Debug, Default)]
pub struct Diag {
    /// indexed by the direction the side *sends* in: [client, server]
    pub sides: [DiagSide; 2],
    /// current round of the driver (millisecond in fixture runs), set by the
    /// driver before it reports emissions and deliveries
    pub round: u64,
}

impl Diag {
    fn rel(iss: Option<u32>, v: u32) -> u64 {
        match iss {
            Some(i) => v.wrapping_sub(i) as u64,
            None => u64::MAX,
        }
    }

    pub fn emit(&mut self, dir: Dir, s: &TcpSegment) {
        let (x, y) = (dir.idx(), dir.rev().idx());
        if s.flags.rst {
            return;
        }
        if s.flags.syn {
            if self.sides[x].iss.is_some() && self.sides[x].iss != Some(s.seq) {
                // new incarnation of the 4-tuple: start over
                self.sides[x] = DiagSide::default();
            }
            let sx = &mut self.sides[x];
            sx.iss = Some(s.seq);
            sx.max_data_end = sx.max_data_end.max(1);
            sx.a = sx.a.max(1);
        }
        let iss_y = self.sides[y].iss;
        let round = self.round;
        let sx = &mut self.sides[x];
        let relseq = Self::rel(sx.iss, s.seq);
        if !s.flags.syn && relseq != u64::MAX {
            if !s.payload.is_empty() {
                sx.max_data_end = sx.max_data_end.max(relseq + s.payload.len() as u64);
            }
            if s.flags.fin {
                sx.fin_rel = Some(relseq + s.payload.len() as u64);
                sx.fin_emits += 1;
                sx.last_fin_emit_round = round;
            }
        }
        if s.flags.ack {
            sx.last_win_emitted = Some(s.window);
            let ra = Self::rel(iss_y, s.ack);
            if ra != u64::MAX {
                sx.max_ack_emitted = sx.max_ack_emitted.max(ra);
            }
        }
    }

    /// `order` = position of the segment in the emission order of the run.
    pub fn deliver(&mut self, dir: Dir, s: &TcpSegment, order: u64) {
        let (x, y) = (dir.idx(), dir.rev().idx());
        if s.flags.rst {
            self.sides[x].rst_seen = true;
            self.sides[y].rst_seen = true;
            return;
        }
        if s.flags.fin {
            self.sides[x].fin_delivered = true;
        }
        if s.flags.ack {
            let round = self.round;
            let sy = &mut self.sides[y];
            sy.w = Some(s.window as u32);
            if sy.w_newest.map(|(o, _)| order > o).unwrap_or(true) {
                sy.w_newest = Some((order, s.window as u32));
            }
            let ra = Self::rel(sy.iss, s.ack);
            if ra != u64::MAX && ra >= sy.a {
                sy.w_valid = Some(s.window as u32);
            }
            let limit = sy.fin_rel.map(|f| f + 1).unwrap_or(sy.max_data_end);
            if ra != u64::MAX && ra > sy.a && ra <= limit.max(1) {
                sy.a = ra;
                if sy.fin_rel.map(|f| ra > f).unwrap_or(false) && sy.fin_cover_round.is_none() {
                    sy.fin_cover_round = Some(round);
                }
            }
        }
    }

    /// Known defect K1 — "zero-window deadlock": the sender of `dir` still has
    /// accepted bytes (or its FIN) that were never acknowledged, the last
    /// window *delivered* to it is 0, while the receiver has since *emitted*
    /// an open window. The update was lost or overtaken by an older ACK. A
    /// sender facing a closed window emits nothing (after a go-back-N rewind
    /// not even retransmissions), and the stack has no persist timer, so
    /// nothing will ever unblock it. Only meaningful for a run that ended in a
    /// stall at the liveness horizon.
    pub fn zero_window_deadlock(&self, dir: Dir, bytes_accepted: u64, fin_requested: bool) -> bool {
        let sx = &self.sides[dir.idx()];
        let sy = &self.sides[dir.rev().idx()];
        if sx.iss.is_none() || sx.rst_seen {
            return false;
        }
        let acked_bytes = sx.a.min(sx.max_data_end).saturating_sub(1);
        let fin_acked = sx.fin_rel.map(|f| sx.a > f).unwrap_or(false);
        let pending = bytes_accepted > acked_bytes || (fin_requested && !fin_acked);
        // the sender's view of the window is zero under one of the plausible
        // update rules: it follows whatever ACK arrived last, or the last one
        // that was not older than its snd_una, or the newest in emission order
        let view_zero = sx.w == Some(0) || sx.w_valid == Some(0) || sx.w_newest.map(|(_, w)| w == 0).unwrap_or(false);
        view_zero && pending && sy.last_win_emitted.map(|w| w > 0).unwrap_or(false)
    }

    /// Known defect K2 — "closed peer ignores a retransmitted FIN": the
    /// sender of `dir` emitted its FIN, the FIN reached the peer, the peer
    /// emitted an ACK covering it, that ACK never reached the sender, and the
    /// sender retransmitted the FIN until it ran out of attempts. The peer
    /// (already Closed, no TIME_WAIT) never answers again.
    ///
    /// "Never reached the sender" includes "reached it only after it had given
    /// up": the retransmit sweep aborts a connection `retx_threshold` egress
    /// passes after its last retransmission, so an ACK covering the FIN that is
    /// delivered in round `last FIN emission + retx_threshold` or later (e.g. a
    /// window update the Closed peer's TCB still emits when its application
    /// finally reads) finds the sender already aborted. An ACK delivered before
    /// that round would have stopped the abort and is not this defect.
    pub fn fin_ack_lost_for_good(&self, dir: Dir, retx_max: u32, retx_threshold: u32) -> bool {
        let sx = &self.sides[dir.idx()];
        let sy = &self.sides[dir.rev().idx()];
        let Some(f) = sx.fin_rel else { return false };
        // the peer has completed its own close (its FIN was acknowledged), i.e.
        // its TCB is Closed; our FIN was retransmitted at least once (it may
        // share its retransmit budget with data sent before it)
        let _ = retx_max;
        let peer_closed = sy.fin_rel.map(|g| sy.a > g).unwrap_or(false);
        sx.fin_emits >= 2
            && peer_closed
            && sx.fin_delivered
            && sy.fin_delivered
            && sy.max_ack_emitted > f
            && (sx.a <= f
                || sx
                    .fin_cover_round
                    .map(|d| d >= sx.last_fin_emit_round + retx_threshold as u64)
                    .unwrap_or(false))
    }
}
