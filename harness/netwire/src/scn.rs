//! Scenario descriptors (JSON round-trippable, so witnesses replay exactly).

use serde_json::{json, Value};

#[derive(Clone, Debug, PartialEq)]
pub struct Cfg {
    pub mtu: u32,
    pub loopback_mtu: u32,
    pub send_cap: usize,
    pub recv_cap: usize,
    pub retx_threshold: u32,
    pub retx_max: u32,
    pub v6: bool,
    /// both endpoints on one host, talking over 127.0.0.1 / ::1
    pub loopback: bool,
}

impl Default for Cfg {
    fn default() -> Self {
        Cfg {
            mtu: 1500,
            loopback_mtu: 65536,
            send_cap: 65536,
            recv_cap: 65536,
            retx_threshold: 3,
            retx_max: 5,
            v6: false,
            loopback: false,
        }
    }
}

impl Cfg {
    pub fn ip_hdr(&self) -> u32 {
        if self.v6 {
            40
        } else {
            20
        }
    }
    /// MSS of the path the scenario's connection uses.
    pub fn mss(&self) -> usize {
        let mtu = if self.loopback { self.loopback_mtu } else { self.mtu };
        mtu.saturating_sub(self.ip_hdr()).saturating_sub(20) as usize
    }
    pub fn udp_max(&self, loopback: bool) -> usize {
        let mtu = if loopback { self.loopback_mtu } else { self.mtu };
        mtu.saturating_sub(self.ip_hdr()).saturating_sub(8) as usize
    }
    pub fn to_json(&self) -> Value {
        json!({"mtu": self.mtu, "loopback_mtu": self.loopback_mtu, "send_cap": self.send_cap,
               "recv_cap": self.recv_cap, "retx_threshold": self.retx_threshold,
               "retx_max": self.retx_max, "v6": self.v6, "loopback": self.loopback})
    }
    pub fn from_json(v: &Value) -> Cfg {
        let d = Cfg::default();
        Cfg {
            mtu: v["mtu"].as_u64().map(|x| x as u32).unwrap_or(d.mtu),
            loopback_mtu: v["loopback_mtu"].as_u64().map(|x| x as u32).unwrap_or(d.loopback_mtu),
            send_cap: v["send_cap"].as_u64().map(|x| x as usize).unwrap_or(d.send_cap),
            recv_cap: v["recv_cap"].as_u64().map(|x| x as usize).unwrap_or(d.recv_cap),
            retx_threshold: v["retx_threshold"].as_u64().map(|x| x as u32).unwrap_or(d.retx_threshold),
            retx_max: v["retx_max"].as_u64().map(|x| x as u32).unwrap_or(d.retx_max),
            v6: v["v6"].as_bool().unwrap_or(false),
            loopback: v["loopback"].as_bool().unwrap_or(false),
        }
    }
    /// Compact text used in signatures: only fields that differ from default.
    pub fn canon(&self) -> String {
        let d = Cfg::default();
        let mut p = vec![];
        if self.mtu != d.mtu {
            p.push(format!("mtu={}", self.mtu));
        }
        if self.loopback_mtu != d.loopback_mtu {
            p.push(format!("lomtu={}", self.loopback_mtu));
        }
        if self.send_cap != d.send_cap {
            p.push(format!("scap={}", self.send_cap));
        }
        if self.recv_cap != d.recv_cap {
            p.push(format!("rcap={}", self.recv_cap));
        }
        if self.retx_threshold != d.retx_threshold {
            p.push(format!("thr={}", self.retx_threshold));
        }
        if self.retx_max != d.retx_max {
            p.push(format!("rmax={}", self.retx_max));
        }
        if self.v6 {
            p.push("v6".into());
        }
        if self.loopback {
            p.push("lo".into());
        }
        if p.is_empty() {
            "default".into()
        } else {
            p.join(",")
        }
    }
}

/// One direction of the transfer: what its writer and its reader do.
#[derive(Clone, Debug, PartialEq)]
pub struct DirSpec {
    /// bytes the writer writes before closing its side
    pub total: usize,
    /// write sizes, cycled
    pub wchunks: Vec<usize>,
    /// read buffer sizes, cycled (>= 1)
    pub rbufs: Vec<usize>,
    /// rounds the reader waits before each read (0 = reads as soon as woken)
    pub read_pause: u32,
    /// peek before every n-th read (0 = never)
    pub peek_every: u32,
    /// true: `shutdown()`; false: drop the write half (implicit FIN)
    pub explicit_shutdown: bool,
    /// writer probes `try_write` first and checks the return value against
    /// the free space computed from netstat (C16 API clause)
    pub try_write: bool,
    /// rounds the writer waits before its first write
    pub write_delay: u32,
    /// rounds the writer waits between writes and before closing its side
    pub write_pause: u32,
}

impl Default for DirSpec {
    fn default() -> Self {
        DirSpec {
            total: 0,
            wchunks: vec![1000],
            rbufs: vec![4096],
            read_pause: 0,
            peek_every: 0,
            explicit_shutdown: true,
            try_write: false,
            write_delay: 0,
            write_pause: 0,
        }
    }
}

impl DirSpec {
    pub fn to_json(&self) -> Value {
        json!({"total": self.total, "wchunks": self.wchunks, "rbufs": self.rbufs,
               "read_pause": self.read_pause, "peek_every": self.peek_every,
               "explicit_shutdown": self.explicit_shutdown, "try_write": self.try_write,
               "write_delay": self.write_delay, "write_pause": self.write_pause})
    }
    pub fn from_json(v: &Value) -> DirSpec {
        let arr = |x: &Value, dflt: usize| -> Vec<usize> {
            let r: Vec<usize> = x
                .as_array()
                .map(|a| a.iter().filter_map(|e| e.as_u64()).map(|e| e as usize).collect())
                .unwrap_or_default();
            if r.is_empty() {
                vec![dflt]
            } else {
                r
            }
        };
        DirSpec {
            total: v["total"].as_u64().unwrap_or(0) as usize,
            wchunks: arr(&v["wchunks"], 1000),
            rbufs: arr(&v["rbufs"], 4096),
            read_pause: v["read_pause"].as_u64().unwrap_or(0) as u32,
            peek_every: v["peek_every"].as_u64().unwrap_or(0) as u32,
            explicit_shutdown: v["explicit_shutdown"].as_bool().unwrap_or(true),
            try_write: v["try_write"].as_bool().unwrap_or(false),
            write_delay: v["write_delay"].as_u64().unwrap_or(0) as u32,
            write_pause: v["write_pause"].as_u64().unwrap_or(0) as u32,
        }
    }
    pub fn canon(&self) -> String {
        let l = |v: &Vec<usize>| v.iter().map(|x| x.to_string()).collect::<Vec<_>>().join("/");
        let mut s = format!("{}w{}r{}", self.total, l(&self.wchunks), l(&self.rbufs));
        if self.read_pause > 0 {
            s.push_str(&format!("p{}", self.read_pause));
        }
        if self.peek_every > 0 {
            s.push_str(&format!("k{}", self.peek_every));
        }
        if !self.explicit_shutdown {
            s.push('d');
        }
        if self.try_write {
            s.push('t');
        }
        if self.write_delay > 0 {
            s.push_str(&format!("y{}", self.write_delay));
        }
        if self.write_pause > 0 {
            s.push_str(&format!("z{}", self.write_pause));
        }
        s
    }
}

#[derive(Clone, Copy, Debug, PartialEq, Eq, PartialOrd, Ord, Hash)]
pub enum Dir {
    C2S,
    S2C,
}

impl Dir {
    pub fn as_str(&self) -> &'static str {
        match self {
            Dir::C2S => "c2s",
            Dir::S2C => "s2c",
        }
    }
    pub fn parse(s: &str) -> Option<Dir> {
        match s {
            "c2s" => Some(Dir::C2S),
            "s2c" => Some(Dir::S2C),
            _ => None,
        }
    }
    pub fn rev(&self) -> Dir {
        match self {
            Dir::C2S => Dir::S2C,
            Dir::S2C => Dir::C2S,
        }
    }
    pub fn idx(&self) -> usize {
        match self {
            Dir::C2S => 0,
            Dir::S2C => 1,
        }
    }
}

#[derive(Clone, Copy, Debug, PartialEq, Eq, PartialOrd, Ord, Hash)]
pub enum Kind {
    Syn,
    SynAck,
    HsAck,
    Data,
    Ack,
    WinUpd,
    Fin,
    Rst,
    Udp,
}

pub const TCP_KINDS: [Kind; 8] = [
    Kind::Syn,
    Kind::SynAck,
    Kind::HsAck,
    Kind::Data,
    Kind::Ack,
    Kind::WinUpd,
    Kind::Fin,
    Kind::Rst,
];

impl Kind {
    pub fn as_str(&self) -> &'static str {
        match self {
            Kind::Syn => "SYN",
            Kind::SynAck => "SYNACK",
            Kind::HsAck => "HSACK",
            Kind::Data => "DATA",
            Kind::Ack => "ACK",
            Kind::WinUpd => "WINUPD",
            Kind::Fin => "FIN",
            Kind::Rst => "RST",
            Kind::Udp => "UDP",
        }
    }
    pub fn parse(s: &str) -> Option<Kind> {
        Some(match s {
            "SYN" => Kind::Syn,
            "SYNACK" => Kind::SynAck,
            "HSACK" => Kind::HsAck,
            "DATA" => Kind::Data,
            "ACK" => Kind::Ack,
            "WINUPD" => Kind::WinUpd,
            "FIN" => Kind::Fin,
            "RST" => Kind::Rst,
            "UDP" => Kind::Udp,
            _ => return None,
        })
    }
}

#[derive(Clone, Copy, Debug, PartialEq, Eq, PartialOrd, Ord, Hash)]
pub enum Fate {
    Now,
    Hold(u32),
    Drop,
}

impl Fate {
    pub fn canon(&self) -> String {
        match self {
            Fate::Now => "now".into(),
            Fate::Hold(k) => format!("hold{k}"),
            Fate::Drop => "drop".into(),
        }
    }
    pub fn parse(s: &str) -> Option<Fate> {
        if s == "now" {
            Some(Fate::Now)
        } else if s == "drop" {
            Some(Fate::Drop)
        } else {
            s.strip_prefix("hold").and_then(|k| k.parse().ok()).map(Fate::Hold)
        }
    }
    pub fn class(&self) -> &'static str {
        match self {
            Fate::Now => "now",
            Fate::Hold(_) => "hold",
            Fate::Drop => "drop",
        }
    }
}

/// A fault addressed to "the occ-th packet of this kind in this direction".
#[derive(Clone, Debug, PartialEq, Eq, PartialOrd, Ord)]
pub struct Fault {
    pub dir: Dir,
    pub kind: Kind,
    pub occ: u32,
    pub fate: Fate,
}

impl Fault {
    pub fn canon(&self) -> String {
        format!("{}:{}#{}:{}", self.dir.as_str(), self.kind.as_str(), self.occ, self.fate.canon())
    }
    pub fn parse(s: &str) -> Option<Fault> {
        let mut it = s.split(':');
        let dir = Dir::parse(it.next()?)?;
        let ko = it.next()?;
        let fate = Fate::parse(it.next()?)?;
        let (k, o) = ko.split_once('#')?;
        Some(Fault {
            dir,
            kind: Kind::parse(k)?,
            occ: o.parse().ok()?,
            fate,
        })
    }
}

#[derive(Clone, Debug, PartialEq)]
pub enum Order {
    /// due packets are delivered in emission order
    Emission,
    /// ... in reverse emission order
    Reverse,
    /// ... in a per-round shuffle derived from this seed
    Shuffle(u64),
}

impl Order {
    pub fn canon(&self) -> String {
        match self {
            Order::Emission => "emission".into(),
            Order::Reverse => "reverse".into(),
            Order::Shuffle(s) => format!("shuffle{s}"),
        }
    }
    pub fn parse(s: &str) -> Order {
        if s == "reverse" {
            Order::Reverse
        } else if let Some(x) = s.strip_prefix("shuffle") {
            Order::Shuffle(x.parse().unwrap_or(0))
        } else {
            Order::Emission
        }
    }
}

/// Seeded fault policy of a random walk. The faults actually applied are
/// recorded and turned into an explicit list for witnesses.
#[derive(Clone, Debug, PartialEq)]
pub struct Policy {
    pub seed: u64,
    pub p_drop: f64,
    pub p_hold: f64,
    pub d: u32,
    pub max_drops: u32,
    /// drop every packet of this direction emitted in rounds [from, to)
    pub blackhole: Option<(Dir, u64, u64)>,
}

#[derive(Clone, Debug, PartialEq)]
pub enum Sched {
    Explicit(Vec<Fault>),
    Random(Policy),
}

#[derive(Clone, Debug, PartialEq)]
pub struct Scn {
    pub cfg: Cfg,
    pub c2s: DirSpec,
    pub s2c: DirSpec,
    pub sched: Sched,
    pub order: Order,
    /// uniform one-way link latency in rounds: every packet the schedule
    /// would deliver at once is held this long instead
    pub latency: u32,
}

impl Scn {
    pub fn dir(&self, d: Dir) -> &DirSpec {
        match d {
            Dir::C2S => &self.c2s,
            Dir::S2C => &self.s2c,
        }
    }

    pub fn to_json(&self) -> Value {
        let sched = match &self.sched {
            Sched::Explicit(f) => json!({"explicit": f.iter().map(|x| x.canon()).collect::<Vec<_>>()}),
            Sched::Random(p) => json!({"random": {
                "seed": p.seed.to_string(), "p_drop": p.p_drop, "p_hold": p.p_hold, "d": p.d,
                "max_drops": p.max_drops,
                "blackhole": p.blackhole.map(|(d, a, b)| json!([d.as_str(), a, b])),
            }}),
        };
        json!({"cfg": self.cfg.to_json(), "c2s": self.c2s.to_json(), "s2c": self.s2c.to_json(),
               "sched": sched, "order": self.order.canon(), "latency": self.latency})
    }

    pub fn from_json(v: &Value) -> Option<Scn> {
        let sched = if let Some(list) = v["sched"]["explicit"].as_array() {
            Sched::Explicit(list.iter().filter_map(|s| s.as_str()).filter_map(Fault::parse).collect())
        } else if v["sched"]["random"].is_object() {
            let r = &v["sched"]["random"];
            let bh = r["blackhole"].as_array().and_then(|a| {
                Some((Dir::parse(a.first()?.as_str()?)?, a.get(1)?.as_u64()?, a.get(2)?.as_u64()?))
            });
            Sched::Random(Policy {
                seed: r["seed"].as_str().and_then(|s| s.parse().ok()).unwrap_or(0),
                p_drop: r["p_drop"].as_f64().unwrap_or(0.0),
                p_hold: r["p_hold"].as_f64().unwrap_or(0.0),
                d: r["d"].as_u64().unwrap_or(0) as u32,
                max_drops: r["max_drops"].as_u64().unwrap_or(0) as u32,
                blackhole: bh,
            })
        } else {
            return None;
        };
        Some(Scn {
            cfg: Cfg::from_json(&v["cfg"]),
            c2s: DirSpec::from_json(&v["c2s"]),
            s2c: DirSpec::from_json(&v["s2c"]),
            sched,
            order: Order::parse(v["order"].as_str().unwrap_or("emission")),
            latency: v["latency"].as_u64().unwrap_or(0) as u32,
        })
    }

    pub fn canon(&self) -> String {
        let sched = match &self.sched {
            Sched::Explicit(f) => {
                if f.is_empty() {
                    "none".to_string()
                } else {
                    f.iter().map(|x| x.canon()).collect::<Vec<_>>().join(",")
                }
            }
            Sched::Random(p) => format!("random{}", p.seed),
        };
        let mut s = format!(
            "cfg={}|c2s={}|s2c={}|faults={}",
            self.cfg.canon(),
            self.c2s.canon(),
            self.s2c.canon(),
            sched
        );
        if self.order != Order::Emission {
            s.push_str(&format!("|order={}", self.order.canon()));
        }
        if self.latency > 0 {
            s.push_str(&format!("|lat={}", self.latency));
        }
        s
    }
}
