//! C16 "mixed interface" cases: every host carries a loopback TCP connection
//! AND one end of a cross-host connection of the same address family, with
//! writes queued on all of them before the same egress pass. The per-packet
//! MSS monitor is keyed by the interface a segment actually leaves from
//! (source address loopback → `loopback_mtu`, otherwise `mtu`), so a stack that
//! derives one connection's segment size from another interface's MTU is seen
//! on the wire (external segments) or through the hook #3 tap (loopback
//! segments).

use std::cell::{Cell, RefCell};
use std::net::{IpAddr, Ipv4Addr, Ipv6Addr, SocketAddr};
use std::rc::Rc;

use serde_json::{json, Value};
use tokio::io::{AsyncReadExt, AsyncWriteExt};
use turmoil_net::shim::tokio::net::{TcpListener, TcpStream};
use turmoil_net::{Net, Packet, Transport};
use vcore::rng::{keyed_byte, keyed_bytes};
use vcore::{Rng, ScenarioOut};

use crate::exec::{wait_rounds, Exec, RoundClock};
use crate::scn::Cfg;
use crate::wire::kernel_config;

#[derive(Clone, Debug, PartialEq)]
pub struct MixedCase {
    pub cfg: Cfg,
    /// per host [A, B]: open the loopback connection before the cross-host one
    pub lo_first: [bool; 2],
    /// bytes each of the six writers sends
    pub total: usize,
    pub chunk: usize,
    /// rounds between two writes of a writer (same for all: they stay in step)
    pub pause: u32,
}

impl MixedCase {
    pub fn to_json(&self) -> Value {
        json!({"cfg": self.cfg.to_json(), "lo_first": [self.lo_first[0], self.lo_first[1]],
               "total": self.total, "chunk": self.chunk, "pause": self.pause})
    }
    pub fn from_json(v: &Value) -> Option<MixedCase> {
        Some(MixedCase {
            cfg: Cfg::from_json(&v["cfg"]),
            lo_first: [v["lo_first"][0].as_bool()?, v["lo_first"][1].as_bool()?],
            total: v["total"].as_u64()? as usize,
            chunk: v["chunk"].as_u64()? as usize,
            pause: v["pause"].as_u64().unwrap_or(0) as u32,
        })
    }
    pub fn canon(&self) -> String {
        format!(
            "mixed|cfg={}|lo_first={}{}|{}w{}z{}",
            self.cfg.canon(),
            self.lo_first[0] as u8,
            self.lo_first[1] as u8,
            self.total,
            self.chunk,
            self.pause
        )
    }
}

pub fn gen(rng: &mut Rng) -> MixedCase {
    let v6 = rng.chance(0.4);
    let hdr: u32 = if v6 { 60 } else { 40 };
    let menu = [hdr + 1, hdr + 7, 100.max(hdr + 1), 576, 1500, 9000, 65536];
    let mtu = rng.pick_copy(&menu);
    let mut lo = rng.pick_copy(&menu);
    while lo == mtu {
        lo = rng.pick_copy(&menu);
    }
    let caps = [100usize, 4096, 65536, 65536];
    let cfg = Cfg {
        mtu,
        loopback_mtu: lo,
        send_cap: rng.pick_copy(&caps),
        recv_cap: rng.pick_copy(&caps),
        retx_threshold: 3,
        retx_max: 5,
        v6,
        loopback: false,
    };
    let small = (mtu.min(lo) - hdr) as usize;
    let mut total = rng.pick_copy(&[300usize, 4000, 20_000, 70_000]);
    // bound the number of segments of the narrow interface
    while total / small.max(1) > 400 {
        total /= 4;
    }
    MixedCase {
        cfg,
        lo_first: [rng.coin(), rng.coin()],
        total: total.max(1),
        chunk: rng.pick_copy(&[total.max(1), 1000, 100_000]),
        pause: rng.pick_copy(&[0u32, 0, 1, 3]),
    }
}

/// The seeded situation and its mirror images, run on every check.
pub fn directed() -> Vec<(&'static str, MixedCase)> {
    let mk = |mtu: u32, lo: u32, v6: bool, lo_first: [bool; 2], total: usize| MixedCase {
        cfg: Cfg { mtu, loopback_mtu: lo, v6, ..Cfg::default() },
        lo_first,
        total,
        chunk: total,
        pause: 0,
    };
    vec![
        ("mixed-v4-lo-first-default-mtus", mk(1500, 65536, false, [true, true], 4000)),
        ("mixed-v4-ext-first-default-mtus", mk(1500, 65536, false, [false, false], 4000)),
        ("mixed-v6-lo-first-small-loopback", mk(1500, 100, true, [true, false], 4000)),
        ("mixed-v6-ext-first-small-loopback", mk(1500, 100, true, [false, true], 4000)),
        ("mixed-v4-jumbo-external", mk(9000, 576, false, [true, false], 20_000)),
    ]
}

struct Sh {
    clock: Rc<RoundClock>,
    /// streams established so far (6 when everything is up)
    established: Cell<u32>,
    lo_up: [Cell<bool>; 2],
    ext_up: [Cell<bool>; 2],
    readers_done: Cell<u32>,
    complaints: RefCell<Vec<(String, String)>>,
    case: MixedCase,
}

async fn until(sh: &Rc<Sh>, f: impl Fn(&Sh) -> bool) {
    while !f(sh) {
        wait_rounds(&sh.clock, 1).await;
    }
}

async fn pump(sh: Rc<Sh>, s: TcpStream, wkey: u64, rkey: u64) {
    sh.established.set(sh.established.get() + 1);
    let (mut r, mut w) = s.into_split();
    // every writer starts in the same round: all six streams have unsent data
    // when the next egress pass runs
    until(&sh, |s| s.established.get() >= 6).await;
    let total = sh.case.total;
    let wr = async {
        let mut off = 0usize;
        while off < total {
            let n = sh.case.chunk.max(1).min(total - off);
            let data = keyed_bytes(wkey, off as u64, n);
            match w.write(&data).await {
                Ok(0) | Err(_) => return,
                Ok(k) => off += k,
            }
            if sh.case.pause > 0 && off < total {
                wait_rounds(&sh.clock, sh.case.pause as u64).await;
            }
        }
        let _ = w.shutdown().await;
    };
    let rd = async {
        let mut off = 0u64;
        let mut buf = vec![0u8; 16 * 1024];
        loop {
            match r.read(&mut buf).await {
                Ok(0) => break,
                Ok(k) => {
                    if (0..k).any(|j| buf[j] != keyed_byte(rkey, off + j as u64)) {
                        sh.complaints
                            .borrow_mut()
                            .push(("mixed-corrupt".into(), format!("stream {rkey:x}: wrong bytes at offset {off}")));
                        break;
                    }
                    off += k as u64;
                }
                Err(_) => break,
            }
        }
        if off == total as u64 {
            sh.readers_done.set(sh.readers_done.get() + 1);
        }
    };
    tokio::join!(wr, rd);
}

pub fn run(case: &MixedCase) -> ScenarioOut {
    let mut out = ScenarioOut::default();
    let cfg = &case.cfg;
    let mut net = Net::with_config(kernel_config(cfg));
    let ips: [IpAddr; 2] = if cfg.v6 {
        [
            IpAddr::V6(Ipv6Addr::new(0xfd00, 0, 0, 0, 0, 0, 0, 1)),
            IpAddr::V6(Ipv6Addr::new(0xfd00, 0, 0, 0, 0, 0, 0, 2)),
        ]
    } else {
        [IpAddr::V4(Ipv4Addr::new(10, 0, 0, 1)), IpAddr::V4(Ipv4Addr::new(10, 0, 0, 2))]
    };
    let hosts = [net.add_host(ips[0]), net.add_host(ips[1])];
    let guard = net.enter();
    let tap: Rc<RefCell<Vec<Packet>>> = Rc::new(RefCell::new(vec![]));
    {
        let t = tap.clone();
        turmoil_net::verif::set_loopback_tap(Some(Box::new(move |_a, p| t.borrow_mut().push(p.clone()))));
    }
    let lo_ip: IpAddr = if cfg.v6 { IpAddr::V6(Ipv6Addr::LOCALHOST) } else { IpAddr::V4(Ipv4Addr::LOCALHOST) };
    let wildcard: IpAddr = if cfg.v6 { IpAddr::V6(Ipv6Addr::UNSPECIFIED) } else { IpAddr::V4(Ipv4Addr::UNSPECIFIED) };
    let clock = Rc::new(RoundClock::default());
    let sh = Rc::new(Sh {
        clock: clock.clone(),
        established: Cell::new(0),
        lo_up: [Cell::new(false), Cell::new(false)],
        ext_up: [Cell::new(false), Cell::new(false)],
        readers_done: Cell::new(0),
        complaints: RefCell::new(vec![]),
        case: case.clone(),
    });
    let mut exec = Exec::default();
    for h in 0..2usize {
        let lo_addr = SocketAddr::new(lo_ip, 7000 + h as u16);
        let lo_first = case.lo_first[h];
        // loopback server end
        {
            let sh = sh.clone();
            exec.spawner.spawn(&format!("lo-server-{h}"), hosts[h], async move {
                if !lo_first {
                    until(&sh, |s| s.ext_up[h].get()).await;
                }
                let l = TcpListener::bind(lo_addr).await.expect("lo bind");
                let (s, _) = l.accept().await.expect("lo accept");
                sh.lo_up[h].set(true);
                pump(sh.clone(), s, 0x10 + h as u64, 0x20 + h as u64).await;
                drop(l);
            });
        }
        // loopback client end
        {
            let sh = sh.clone();
            exec.spawner.spawn(&format!("lo-client-{h}"), hosts[h], async move {
                if !lo_first {
                    until(&sh, |s| s.ext_up[h].get()).await;
                }
                // the listener task runs first in the same round (task order)
                let s = TcpStream::connect(lo_addr).await.expect("lo connect");
                pump(sh.clone(), s, 0x20 + h as u64, 0x10 + h as u64).await;
            });
        }
    }
    // cross-host connection: A connects, B accepts
    {
        let sh2 = sh.clone();
        let lo_first = case.lo_first[1];
        exec.spawner.spawn("ext-server", hosts[1], async move {
            let l = TcpListener::bind(SocketAddr::new(wildcard, 9000)).await.expect("ext bind");
            // the accepted child is created when the SYN arrives; with
            // lo_first the loopback sockets of B already exist by then
            let _ = lo_first;
            let (s, _) = l.accept().await.expect("ext accept");
            sh2.ext_up[1].set(true);
            pump(sh2.clone(), s, 0x31, 0x30).await;
            drop(l);
        });
        let sh3 = sh.clone();
        let a_lo_first = case.lo_first[0];
        let b_lo_first = case.lo_first[1];
        let dst = SocketAddr::new(ips[1], 9000);
        exec.spawner.spawn("ext-client", hosts[0], async move {
            if a_lo_first {
                until(&sh3, |s| s.lo_up[0].get()).await;
            }
            if b_lo_first {
                // B wants its loopback sockets to be older than the child
                until(&sh3, |s| s.lo_up[1].get()).await;
            }
            let s = TcpStream::connect(dst).await.expect("ext connect");
            sh3.ext_up[0].set(true);
            pump(sh3.clone(), s, 0x30, 0x31).await;
        });
    }

    let mss_of = |src: IpAddr| -> (u32, usize) {
        let mtu = if src.is_loopback() { cfg.loopback_mtu } else { cfg.mtu };
        let hdr = if src.is_ipv4() { 20 } else { 40 };
        (mtu, mtu.saturating_sub(hdr).saturating_sub(20) as usize)
    };
    let mut complaints: Vec<(String, String)> = vec![];
    let mut trace: Vec<String> = vec![];
    let (mut max_lo, mut max_ext) = (0usize, 0usize);
    let mut done_round = None;
    let mut rounds = 0u64;
    for round in 1..=4000u64 {
        rounds = round;
        clock.advance();
        exec.run_until_stalled();
        let mut wire: Vec<Packet> = vec![];
        guard.egress_all(&mut wire);
        let tapped: Vec<Packet> = std::mem::take(&mut *tap.borrow_mut());
        let (mut lo_data, mut ext_data) = (0u64, 0u64);
        for (p, via_tap) in tapped.iter().map(|p| (p, true)).chain(wire.iter().map(|p| (p, false))) {
            let Transport::Tcp(s) = &p.payload else { continue };
            let (mtu, mss) = mss_of(p.src);
            let len = s.payload.len();
            out.count("tcp_packets_checked", 1);
            if via_tap {
                out.count("loopback_packets_via_tap", 1);
            }
            if len == 0 {
                continue;
            }
            out.count("data_segments_checked_mss", 1);
            if len == mss {
                out.count("segments_exactly_mss", 1);
            }
            if p.src.is_loopback() {
                lo_data += 1;
                max_lo = max_lo.max(len);
                out.count("mixed_loopback_data_segments", 1);
            } else {
                ext_data += 1;
                max_ext = max_ext.max(len);
                out.count("mixed_external_data_segments", 1);
            }
            if trace.len() < 40 {
                trace.push(format!("r{round} {} -> {} len={len} (mss {mss}{})", p.src, p.dst, if via_tap { ", tap" } else { "" }));
            }
            if len > mss || p.size() > mtu {
                complaints.push((
                    "mss-exceeded".into(),
                    format!(
                        "segment with {len} payload bytes ({} on the wire) leaves {} -> {} through the {} interface (mtu {mtu}): MSS is {mss}",
                        p.size(),
                        p.src,
                        p.dst,
                        if p.src.is_loopback() { "loopback" } else { "external" }
                    ),
                ));
            }
        }
        if lo_data > 0 && ext_data > 0 {
            out.count("mixed_passes_with_both_interfaces", 1);
        }
        for p in wire {
            guard.deliver(p);
        }
        if sh.readers_done.get() >= 6 && done_round.is_none() {
            done_round = Some(round);
        }
        if let Some(d) = done_round {
            if round >= d + 6 {
                break;
            }
        }
        if !complaints.is_empty() && round > 50 {
            break;
        }
    }
    complaints.extend(sh.complaints.borrow().iter().cloned());
    exec.drop_all();
    turmoil_net::verif::set_loopback_tap(None);
    drop(guard);
    let mut h = vcore::Fnv::new();
    h.write_str(&case.canon());
    for t in &trace {
        h.write_str(t);
    }
    h.write_u64(rounds);
    out.digest = h.finish();
    out.count("mixed_cases", 1);
    out.saw(
        "mixed_max_payload_vs_mss",
        format!("loopback mss={} max={} | external mss={} max={}", mss_of(lo_ip).1, max_lo, mss_of(ips[0]).1, max_ext),
    );
    if done_round.is_none() && complaints.is_empty() {
        out.discarded = Some("mixed-unfinished".into());
    }
    out.nontrivial = done_round.is_some() && max_lo > 0 && max_ext > 0;
    out.sample = Some(json!({"part": "mixed", "case": case.to_json(), "rounds": rounds,
        "max_loopback_payload": max_lo, "max_external_payload": max_ext, "trace": trace}));
    if let Some((class, detail)) = complaints.first() {
        out.violate(
            class,
            format!("C16|{class}||{}", case.canon()),
            format!("{class}: {detail} — {}", case.canon()),
            json!({"part": "mixed", "case": case.to_json(), "trace": trace}),
        );
    }
    out
}
