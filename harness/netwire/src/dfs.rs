//! Exhaustive re-execution DFS over per-packet fates against the real stack.
//!
//! Choice points are the packets with emission index in
//! `[start, start + depth)`. At each of them the fate is one of
//! deliver-now / hold 1..d rounds / drop (at most `max_drops` drops per path);
//! every packet outside the window is delivered at once. Each execution
//! replays a prefix of decisions from scratch and continues with
//! "deliver now"; the alternatives at every newly reached choice point are
//! pushed for later executions. Before a new choice point is decided the full
//! state (kernel dump via hook #2, API history, packets in flight, the rest of
//! the current batch, drops used) is hashed; reaching a state that was already
//! expanded with at least as many choice points left prunes the execution.

use std::collections::HashMap;

use crate::scn::*;
use crate::wire::{Choice, Fates, Outcome, Stop, Wire};

pub struct DfsSpec {
    pub scn: Scn,
    pub start: usize,
    pub depth: usize,
    pub max_drops: u32,
    /// hold durations offered at every choice point (rounds)
    pub holds: Vec<u32>,
    pub max_execs: u64,
    /// wall-clock guard: stop expanding (truncated) once past this instant
    pub deadline: Option<std::time::Instant>,
}

#[derive(Default)]
pub struct DfsStats {
    pub execs: u64,
    pub paths: u64,
    pub pruned: u64,
    pub states: u64,
    pub transitions: u64,
    pub truncated: bool,
    pub max_points: usize,
    /// outcomes of complete paths that the caller's judge flagged
    pub flagged: Vec<(Scn, Outcome, bool)>,
    pub known_hits: u64,
    pub matrix: std::collections::BTreeMap<String, u64>,
    pub complete_ok: u64,
    pub digest: u64,
    pub sample_paths: Vec<String>,
}

struct DfsFates<'a> {
    prefix: &'a [Fate],
    start: usize,
    depth: usize,
    visited: &'a mut HashMap<u64, usize>,
    /// fates taken at choice points, in order
    taken: Vec<Fate>,
    /// drops used before each choice point
    drops_before: Vec<u32>,
    pruned: bool,
    new_states: u64,
    transitions: u64,
}

impl Fates for DfsFates<'_> {
    fn wants_state(&self, idx: usize) -> bool {
        idx >= self.start && idx - self.start >= self.prefix.len() && idx - self.start < self.depth
    }
    fn decide(&mut self, c: &Choice) -> Option<Fate> {
        if c.idx < self.start || c.idx - self.start >= self.depth {
            return Some(Fate::Now);
        }
        let j = c.idx - self.start;
        debug_assert_eq!(j, self.taken.len());
        if j < self.prefix.len() {
            self.drops_before.push(c.drops);
            self.taken.push(self.prefix[j]);
            if j + 1 == self.prefix.len() {
                self.transitions += 1;
            }
            return Some(self.prefix[j]);
        }
        let left = self.depth - j;
        let st = c.state.expect("state requested");
        match self.visited.get(&st) {
            Some(&l) if l >= left => {
                self.pruned = true;
                return None;
            }
            _ => {
                self.visited.insert(st, left);
                self.new_states += 1;
            }
        }
        self.drops_before.push(c.drops);
        self.taken.push(Fate::Now);
        self.transitions += 1;
        Some(Fate::Now)
    }
}

/// `judge_flags` returns (complaint?, complaint identified as a known defect?).
pub fn explore(spec: &DfsSpec, judge_flags: &dyn Fn(&Scn, &Outcome) -> (bool, bool)) -> DfsStats {
    let mut st = DfsStats::default();
    let mut visited: HashMap<u64, usize> = HashMap::new();
    let mut stack: Vec<Vec<Fate>> = vec![vec![]];
    let mut alts: Vec<Fate> = spec.holds.iter().map(|k| Fate::Hold(*k)).collect();
    alts.push(Fate::Drop);
    let mut dig = vcore::Fnv::new();
    while let Some(prefix) = stack.pop() {
        if st.execs >= spec.max_execs
            || (st.execs % 256 == 255 && spec.deadline.map(|d| std::time::Instant::now() > d).unwrap_or(false))
        {
            st.truncated = true;
            break;
        }
        st.execs += 1;
        let w = Wire::new(&spec.scn);
        let mut f = DfsFates {
            prefix: &prefix,
            start: spec.start,
            depth: spec.depth,
            visited: &mut visited,
            taken: vec![],
            drops_before: vec![],
            pruned: false,
            new_states: 0,
            transitions: 0,
        };
        let mut w = w;
        w.monitors_on = false;
        let o = w.run(&mut f, 2000);
        st.transitions += f.transitions;
        st.states += f.new_states;
        st.max_points = st.max_points.max(f.taken.len());
        let taken = std::mem::take(&mut f.taken);
        let drops_before = std::mem::take(&mut f.drops_before);
        let pruned = f.pruned;
        // expand alternatives at every choice point newly reached in this run
        for j in (prefix.len()..taken.len()).rev() {
            for a in alts.iter().rev() {
                if *a == Fate::Drop && drops_before[j] >= spec.max_drops {
                    continue;
                }
                let mut p = taken[..j].to_vec();
                p.push(*a);
                stack.push(p);
            }
        }
        if pruned || o.stop == Stop::Aborted {
            st.pruned += 1;
            continue;
        }
        st.paths += 1;
        for p in &o.pkts {
            if !p.loopback {
                *st.matrix.entry(format!("{}:{}", p.fate.class(), p.kind.as_str())).or_default() += 1;
            }
        }
        dig.write_u64(o.digest());
        if st.sample_paths.len() < 3 && taken.iter().any(|f| *f != Fate::Now) {
            st.sample_paths.push(taken.iter().map(|f| f.canon()).collect::<Vec<_>>().join(","));
        }
        let mut scn = spec.scn.clone();
        scn.sched = Sched::Explicit(o.applied_faults());
        let (flag, known) = judge_flags(&scn, &o);
        if flag && known {
            st.known_hits += 1;
            if !st.flagged.iter().any(|(_, _, k)| *k) {
                st.flagged.push((scn, o, true));
            }
        } else if flag {
            st.flagged.push((scn, o, false));
            if st.flagged.iter().filter(|(_, _, k)| !*k).count() >= 6 {
                // the variant already fails: no point in enumerating the rest
                st.truncated = true;
                break;
            }
        } else {
            st.complete_ok += 1;
        }
    }
    st.digest = dig.finish();
    st
}
