//! "The harness is the wire": owns the installed `Net`, runs the endpoint
//! tasks to quiescence, drains egress, lets a fault schedule decide every
//! packet's fate, delivers, and watches both the wire and the API.

use std::cell::{Cell, RefCell};
use std::collections::BTreeMap;
use std::net::{IpAddr, Ipv4Addr, Ipv6Addr, SocketAddr};
use std::rc::Rc;

use serde_json::{json, Value};
use turmoil_net::{EnterGuard, KernelConfig, Net, Packet, Transport};
use vcore::{Fnv, Rng};

use crate::diag::Diag;
use crate::exec::{Exec, RoundClock};
use crate::prog::{self, Hist, Shared, SERVER_PORT};
use crate::scn::*;

#[derive(Clone, Debug)]
pub struct PktRec {
    pub idx: usize,
    pub round: u64,
    pub dir: Dir,
    pub kind: Kind,
    pub occ: u32,
    /// relative to the sender's ISN when known (SYN = 0, first byte = 1)
    pub seq: u64,
    /// relative to the peer's ISN when known
    pub ack: u64,
    pub ack_flag: bool,
    pub window: u16,
    pub len: usize,
    pub retx: bool,
    pub loopback: bool,
    pub fate: Fate,
    pub delivered: Option<u64>,
}

impl PktRec {
    pub fn line(&self) -> String {
        format!(
            "#{} r{} {} {}{} seq={} ack={}{} win={} len={} -> {}{}",
            self.idx,
            self.round,
            self.dir.as_str(),
            self.kind.as_str(),
            if self.retx { "(retx)" } else { "" },
            self.seq,
            self.ack,
            if self.ack_flag { "" } else { "(noack)" },
            self.window,
            self.len,
            self.fate.canon(),
            match self.delivered {
                Some(r) if self.fate != Fate::Now => format!(" delivered r{r}"),
                _ => String::new(),
            }
        )
    }
}

#[derive(Default, Clone, Debug)]
struct Side {
    iss: Option<u32>,
    syn_emitted: bool,
    /// highest relative sequence end emitted (SYN and FIN count)
    max_end: u64,
    /// highest relative end of payload emitted (first byte is at 1)
    max_data_end: u64,
    fin_emitted: bool,
    /// highest valid cumulative ACK delivered to this side (relative to its ISN)
    a: u64,
    /// window field of the last ACK-bearing non-RST segment (or SYN) delivered
    w: Option<u32>,
    /// the wire has shown this side everything it needs to be established
    est: bool,
    last_ack_emitted: Option<u64>,
    last_win_emitted: Option<u16>,
    max_ack_emitted: u64,
    dead: bool,
    /// newest advertisement (in the peer's emission order) delivered so far:
    /// (emission index, ack relative to this side's ISN, window)
    w_newest: Option<(usize, u64, u32)>,
    /// highest right edge (ack + window) this side has advertised, and
    /// whether that advertisement was a SYN / SYN-ACK
    max_edge: Option<(u64, bool)>,
}

/// C16 monitors (per packet and at quiescent points). Complaints are
/// (class, detail); counters feed the evidence.
#[derive(Default, Clone, Debug)]
pub struct Mon {
    pub complaints: Vec<(String, String)>,
    pub counters: BTreeMap<String, u64>,
    pub max_payload: usize,
    pub max_inflight: u64,
    pub min_window_seen: Option<u32>,
    pub max_send_q: usize,
    pub max_recv_q: usize,
}

impl Mon {
    pub fn count(&mut self, k: &str, n: u64) {
        *self.counters.entry(k.to_string()).or_default() += n;
    }
    fn complain(&mut self, class: &str, detail: String) {
        let same = self.complaints.iter().filter(|(c, _)| c == class).count();
        if same < 4 && self.complaints.len() < 24 {
            self.complaints.push((class.to_string(), detail));
        }
    }
}

pub struct Choice<'a> {
    pub idx: usize,
    pub rec: &'a PktRec,
    pub round: u64,
    pub drops: u32,
    pub state: Option<u64>,
}

pub trait Fates {
    fn wants_state(&self, _idx: usize) -> bool {
        false
    }
    /// `None` aborts the execution (used by the DFS to prune).
    fn decide(&mut self, c: &Choice) -> Option<Fate>;
}

pub struct ExplicitFates(pub BTreeMap<(Dir, Kind, u32), Fate>);

impl ExplicitFates {
    pub fn new(f: &[Fault]) -> Self {
        ExplicitFates(f.iter().map(|x| ((x.dir, x.kind, x.occ), x.fate)).collect())
    }
}

impl Fates for ExplicitFates {
    fn decide(&mut self, c: &Choice) -> Option<Fate> {
        Some(
            self.0
                .get(&(c.rec.dir, c.rec.kind, c.rec.occ))
                .copied()
                .unwrap_or(Fate::Now),
        )
    }
}

pub struct RandomFates {
    pub p: Policy,
    rng: Rng,
}

impl RandomFates {
    pub fn new(p: &Policy) -> Self {
        RandomFates {
            p: p.clone(),
            rng: Rng::new(p.seed),
        }
    }
}

impl Fates for RandomFates {
    fn decide(&mut self, c: &Choice) -> Option<Fate> {
        if let Some((d, from, to)) = self.p.blackhole {
            if c.rec.dir == d && c.round >= from && c.round < to {
                return Some(Fate::Drop);
            }
        }
        // draw both numbers for every packet so that the fate of packet n
        // does not depend on whether earlier packets consumed randomness
        let a = self.rng.chance(self.p.p_drop);
        let b = self.rng.chance(self.p.p_hold);
        let k = if self.p.d > 0 { self.rng.range(1, self.p.d as u64) as u32 } else { 0 };
        if a && c.drops < self.p.max_drops {
            Some(Fate::Drop)
        } else if b && k > 0 {
            Some(Fate::Hold(k))
        } else {
            Some(Fate::Now)
        }
    }
}

#[derive(Clone, Debug, PartialEq)]
pub enum Stop {
    /// every task finished and the wire went quiet
    Complete,
    /// the bounded-liveness horizon passed after the last fault
    Horizon,
    /// harness safety cap
    RoundCap,
    /// the fate source asked to stop (DFS pruning)
    Aborted,
    /// the code under test panicked (message @ location)
    Panicked(String),
}

pub struct Outcome {
    pub stop: Stop,
    pub rounds: u64,
    pub hist: Hist,
    pub pkts: Vec<PktRec>,
    pub mon: Mon,
    pub pending: Vec<String>,
    pub drops: u32,
    pub max_hold: u32,
    pub last_fault_round: u64,
    pub overtakes: u64,
    pub retx_seen: u64,
    pub final_counts: Vec<(usize, usize, usize)>,
    pub diag: Diag,
    /// the scenario's uniform link latency (those holds are not faults)
    pub latency: u32,
}

impl Outcome {
    /// Explicit fault list equivalent to what was applied in this run.
    pub fn applied_faults(&self) -> Vec<Fault> {
        self.pkts
            .iter()
            .filter(|p| !p.loopback && p.fate != Fate::Now && (self.latency == 0 || p.fate != Fate::Hold(self.latency)))
            .map(|p| Fault {
                dir: p.dir,
                kind: p.kind,
                occ: p.occ,
                fate: p.fate,
            })
            .collect()
    }
    pub fn trace(&self, n: usize) -> Vec<String> {
        self.pkts.iter().take(n).map(|p| p.line()).collect()
    }
    pub fn digest(&self) -> u64 {
        let mut h = Fnv::new();
        for p in &self.pkts {
            h.write_str(&p.line());
        }
        for e in &self.hist.events {
            h.write_str(e);
        }
        h.finish()
    }
}

pub struct Wire {
    pub scn: Scn,
    guard: Option<EnterGuard>,
    ips: [IpAddr; 2],
    exec: Exec,
    pub sh: Rc<Shared>,
    pub round: u64,
    pub pkts: Vec<PktRec>,
    raw: Vec<Option<Packet>>,
    held: Vec<(u64, usize)>,
    sides: [Side; 2],
    diag: Diag,
    pub mon: Mon,
    occ: BTreeMap<(Dir, Kind), u32>,
    tap: Rc<RefCell<Vec<Packet>>>,
    pub drops: u32,
    pub max_hold: u32,
    pub last_fault_round: u64,
    idle_rounds: u64,
    overtakes: u64,
    retx_seen: u64,
    /// per direction: highest emission index delivered so far
    max_delivered_idx: [Option<usize>; 2],
    pub monitors_on: bool,
    /// a second incarnation of the 4-tuple appeared: the API history belongs
    /// to the first one, so the API-level conservation checks stop
    reincarnated: bool,
}

fn addr_pair(v6: bool) -> [IpAddr; 2] {
    if v6 {
        [
            IpAddr::V6(Ipv6Addr::new(0xfd00, 0, 0, 0, 0, 0, 0, 1)),
            IpAddr::V6(Ipv6Addr::new(0xfd00, 0, 0, 0, 0, 0, 0, 2)),
        ]
    } else {
        [
            IpAddr::V4(Ipv4Addr::new(10, 0, 0, 1)),
            IpAddr::V4(Ipv4Addr::new(10, 0, 0, 2)),
        ]
    }
}

pub fn kernel_config(c: &Cfg) -> KernelConfig {
    KernelConfig::default()
        .mtu(c.mtu)
        .loopback_mtu(c.loopback_mtu)
        .send_buf_cap(c.send_cap)
        .recv_buf_cap(c.recv_cap)
        .retx_threshold(c.retx_threshold)
        .retx_max(c.retx_max)
}

impl Wire {
    pub fn new(scn: &Scn) -> Wire {
        let cfg = &scn.cfg;
        let mut net = Net::with_config(kernel_config(cfg));
        let ips = addr_pair(cfg.v6);
        let client = net.add_host(ips[0]);
        let server = if cfg.loopback { client } else { net.add_host(ips[1]) };
        let guard = net.enter();
        let tap: Rc<RefCell<Vec<Packet>>> = Rc::new(RefCell::new(vec![]));
        {
            let t = tap.clone();
            turmoil_net::verif::set_loopback_tap(Some(Box::new(move |_addrs, pkt| {
                t.borrow_mut().push(pkt.clone());
            })));
        }
        let clock = Rc::new(RoundClock::default());
        let exec = Exec::default();
        let netstat_ip = if cfg.loopback { [Some(ips[0]), Some(ips[0])] } else { [Some(ips[0]), Some(ips[1])] };
        let sh = Rc::new(Shared {
            hist: RefCell::new(Hist::default()),
            clock,
            spawner: exec.spawner.clone(),
            cfg: cfg.clone(),
            specs: [scn.c2s.clone(), scn.s2c.clone()],
            ack_progress: [Cell::new(0), Cell::new(0)],
            netstat_ip,
            max_events: 400,
        });
        let server_ip: IpAddr = if cfg.loopback {
            if cfg.v6 {
                IpAddr::V6(Ipv6Addr::LOCALHOST)
            } else {
                IpAddr::V4(Ipv4Addr::LOCALHOST)
            }
        } else {
            ips[1]
        };
        let saddr = SocketAddr::new(server_ip, SERVER_PORT);
        exec.spawner
            .spawn("daemon:server-main", server, prog::server_main(sh.clone(), server, saddr));
        exec.spawner
            .spawn("client-main", client, prog::client_main(sh.clone(), client, saddr));
        Wire {
            scn: scn.clone(),
            guard: Some(guard),
            ips,
            exec,
            sh,
            round: 0,
            pkts: vec![],
            raw: vec![],
            held: vec![],
            sides: [Side::default(), Side::default()],
            diag: Diag::default(),
            mon: Mon::default(),
            occ: BTreeMap::new(),
            tap,
            drops: 0,
            max_hold: 0,
            last_fault_round: 0,
            idle_rounds: 0,
            overtakes: 0,
            retx_seen: 0,
            max_delivered_idx: [None, None],
            monitors_on: true,
            reincarnated: false,
        }
    }

    fn dir_of(&self, pkt: &Packet) -> Dir {
        let (sp, dp) = match &pkt.payload {
            Transport::Tcp(s) => (s.src_port, s.dst_port),
            Transport::Udp(u) => (u.src_port, u.dst_port),
        };
        if self.scn.cfg.loopback {
            if dp == SERVER_PORT && sp != SERVER_PORT {
                Dir::C2S
            } else {
                Dir::S2C
            }
        } else if pkt.src == self.ips[0] {
            Dir::C2S
        } else {
            Dir::S2C
        }
    }

    /// Classify an emitted packet, update the sender-side tracker and run the
    /// per-packet monitors.
    fn on_emit(&mut self, pkt: &Packet, loopback: bool) -> PktRec {
        let dir = self.dir_of(pkt);
        let cfg = self.scn.cfg.clone();
        let idx = self.pkts.len();
        let round = self.round;
        let Transport::Tcp(s) = &pkt.payload else {
            let len = match &pkt.payload {
                Transport::Udp(u) => u.payload.len(),
                _ => 0,
            };
            let occ = self.next_occ(dir, Kind::Udp);
            return PktRec {
                idx,
                round,
                dir,
                kind: Kind::Udp,
                occ,
                seq: 0,
                ack: 0,
                ack_flag: false,
                window: 0,
                len,
                retx: false,
                loopback,
                fate: Fate::Now,
                delivered: None,
            };
        };
        let len = s.payload.len();
        self.diag.emit(dir, s);
        // ---- MSS monitor -------------------------------------------------
        if self.monitors_on {
            let mtu = if pkt.src.is_loopback() { cfg.loopback_mtu } else { cfg.mtu };
            let ip_hdr = if pkt.src.is_ipv4() { 20 } else { 40 };
            let mss = mtu.saturating_sub(ip_hdr).saturating_sub(20) as usize;
            self.mon.count("tcp_packets_checked", 1);
            if len > 0 {
                self.mon.count("data_segments_checked_mss", 1);
                if len == mss {
                    self.mon.count("segments_exactly_mss", 1);
                }
            }
            self.mon.max_payload = self.mon.max_payload.max(len);
            if len > mss {
                self.mon.complain(
                    "mss-exceeded",
                    format!(
                        "{} segment with {len} payload bytes leaves {} (mtu {mtu}, ip header {ip_hdr}): MSS is {mss}",
                        dir.as_str(),
                        pkt.src
                    ),
                );
            }
            if loopback {
                self.mon.count("loopback_packets_via_tap", 1);
            }
        }
        let (x, y) = (dir.idx(), dir.rev().idx());
        let mut retx = false;
        let kind;
        let mut relseq = s.seq as u64;
        let mut relack = s.ack as u64;
        if s.flags.rst {
            kind = Kind::Rst;
            if let Some(iss) = self.sides[x].iss {
                relseq = s.seq.wrapping_sub(iss) as u64;
            }
            if let Some(iss) = self.sides[y].iss {
                relack = s.ack.wrapping_sub(iss) as u64;
            }
        } else if s.flags.syn {
            kind = if s.flags.ack { Kind::SynAck } else { Kind::Syn };
            if self.sides[x].syn_emitted && self.sides[x].iss != Some(s.seq) {
                // a SYN / SYN-ACK with a different ISN opens a new incarnation
                // of the 4-tuple (e.g. a late duplicate SYN accepted by the
                // listener after the first connection was closed and reaped):
                // sequence numbers, windows and advertised edges of the old
                // incarnation say nothing about the new one
                self.sides[x] = Side::default();
                self.reincarnated = true;
                self.mon.count("connection_incarnations_restarted", 1);
            }
            let sx = &mut self.sides[x];
            if sx.syn_emitted && sx.iss == Some(s.seq) {
                retx = true;
            }
            sx.iss = Some(s.seq);
            sx.syn_emitted = true;
            if !s.flags.ack && sx.max_edge.is_none() {
                // the SYN's window counts from the peer's first byte
                sx.max_edge = Some((1 + s.window as u64, true));
            }
            sx.max_end = sx.max_end.max(1);
            sx.max_data_end = sx.max_data_end.max(1);
            if sx.a == 0 {
                sx.a = 1;
            }
            relseq = 0;
            if let Some(iss) = self.sides[y].iss {
                relack = s.ack.wrapping_sub(iss) as u64;
            }
        } else {
            let iss_x = self.sides[x].iss.unwrap_or(0);
            let iss_y = self.sides[y].iss.unwrap_or(0);
            relseq = s.seq.wrapping_sub(iss_x) as u64;
            relack = s.ack.wrapping_sub(iss_y) as u64;
            if s.flags.fin {
                kind = Kind::Fin;
                let sx = &mut self.sides[x];
                if sx.fin_emitted {
                    retx = true;
                }
                sx.fin_emitted = true;
                sx.max_end = sx.max_end.max(relseq + len as u64 + 1);
            } else if len > 0 {
                kind = Kind::Data;
                let end = relseq + len as u64;
                let sx = self.sides[x].clone();
                if relseq < sx.max_data_end {
                    retx = true;
                }
                // ---- window monitor -------------------------------------
                // "never more bytes in flight than the window its peer last
                // advertised": the peer's last advertisement is the newest one
                // (in the peer's emission order) that has been delivered; an
                // older ACK that arrives later does not replace it.
                if self.monitors_on && sx.est && !sx.dead {
                    if let (Some(w_last), Some((_, a_n, w_n))) = (sx.w, sx.w_newest) {
                        let a = sx.a.max(a_n);
                        let inflight = end.saturating_sub(a);
                        self.mon.count("window_bound_evaluations", 1);
                        self.mon.max_inflight = self.mon.max_inflight.max(inflight);
                        if inflight == w_n as u64 {
                            self.mon.count("window_bound_tight", 1);
                        }
                        if end > a_n + w_n as u64 {
                            // a sender that simply follows whatever ACK arrived
                            // last (even an overtaken one) is the known
                            // stale-ACK defect; anything else is untagged
                            let follows_last_delivered = end.saturating_sub(sx.a) <= w_last as u64;
                            if follows_last_delivered && w_last != w_n {
                                self.mon.complain(
                                    "window-exceeded@stale-ack",
                                    format!(
                                        "{} data segment seq={relseq} len={len} ends at {end}, beyond the right edge {} of the peer's newest delivered advertisement (ack={a_n}, window={w_n}); the sender follows an older, overtaken ACK (window {w_last}) that was delivered after it",
                                        dir.as_str(),
                                        a_n + w_n as u64
                                    ),
                                );
                            } else {
                                self.mon.complain(
                                    "window-exceeded",
                                    format!(
                                        "{} data segment seq={relseq} len={len} ends at {end}: {} bytes beyond the highest ACK delivered to the sender ({a}), but the window its peer last advertised (ack={a_n}) is {w_n}",
                                        dir.as_str(),
                                        inflight
                                    ),
                                );
                            }
                        }
                    }
                }
                let sx = &mut self.sides[x];
                sx.max_data_end = sx.max_data_end.max(end);
                sx.max_end = sx.max_end.max(end);
            } else {
                let sx = &self.sides[x];
                if dir == Dir::C2S && relseq == 1 && relack == 1 && sx.max_data_end <= 1 && !sx.fin_emitted {
                    kind = Kind::HsAck;
                } else if sx.last_ack_emitted == Some(relack)
                    && sx.last_win_emitted.map(|w| s.window > w).unwrap_or(false)
                {
                    kind = Kind::WinUpd;
                } else {
                    kind = Kind::Ack;
                }
            }
        }
        if s.flags.ack && !s.flags.rst {
            let sx = &mut self.sides[x];
            sx.last_ack_emitted = Some(relack);
            sx.last_win_emitted = Some(s.window);
            if !s.flags.syn || s.flags.ack {
                sx.max_ack_emitted = sx.max_ack_emitted.max(relack);
            }
            if self.monitors_on && self.sides[y].iss.is_some() {
                // the right edge a receiver advertises never moves left
                let edge = relack + s.window as u64;
                let sx = &mut self.sides[x];
                match sx.max_edge {
                    Some((m, from_syn)) if edge < m => {
                        let class = if from_syn { "window-shrunk@handshake" } else { "window-shrunk" };
                        let detail = format!(
                            "{} segment advertises ack={relack} window={}: right edge {edge} is {} bytes left of the edge {m} advertised before{}",
                            dir.as_str(),
                            s.window,
                            m - edge,
                            if from_syn { " (by the SYN / SYN-ACK, which announces 65535 whatever recv_buf_cap is)" } else { "" }
                        );
                        // every retreat is reported once: continue from the new edge
                        sx.max_edge = Some((edge, false));
                        self.mon.count("right_edge_evaluations", 1);
                        self.mon.complain(class, detail);
                    }
                    Some((m, _)) if edge == m => self.mon.count("right_edge_evaluations", 1),
                    _ => {
                        self.mon.count("right_edge_evaluations", 1);
                        sx.max_edge = Some((edge, s.flags.syn));
                    }
                }
            }
            if self.monitors_on {
                let m = &mut self.mon;
                m.min_window_seen = Some(m.min_window_seen.map_or(s.window as u32, |w| w.min(s.window as u32)));
                if s.window == 0 {
                    m.count("zero_windows_advertised", 1);
                }
            }
        }
        if retx {
            self.retx_seen += 1;
        }
        let occ = self.next_occ(dir, kind);
        PktRec {
            idx,
            round,
            dir,
            kind,
            occ,
            seq: relseq,
            ack: relack,
            ack_flag: s.flags.ack,
            window: s.window,
            len,
            retx,
            loopback,
            fate: Fate::Now,
            delivered: None,
        }
    }

    fn next_occ(&mut self, dir: Dir, kind: Kind) -> u32 {
        let e = self.occ.entry((dir, kind)).or_default();
        let v = *e;
        *e += 1;
        v
    }

    /// Update the receiver-side tracker for a packet handed to `deliver`.
    fn on_deliver(&mut self, idx: usize) {
        let rec = self.pkts[idx].clone();
        let dir = rec.dir;
        if let Some(m) = self.max_delivered_idx[dir.idx()] {
            if idx < m {
                self.overtakes += 1;
            }
        }
        self.max_delivered_idx[dir.idx()] = Some(self.max_delivered_idx[dir.idx()].map_or(idx, |m| m.max(idx)));
        self.pkts[idx].delivered = Some(self.round);
        if rec.kind == Kind::Udp {
            return;
        }
        let y = dir.rev().idx(); // receiving side
        if rec.kind == Kind::Rst {
            self.sides[y].dead = true;
            self.sides[dir.idx()].dead = true;
            return;
        }
        let sender_est = self.sides[dir.idx()].est;
        let sy = &mut self.sides[y];
        match rec.kind {
            Kind::Syn => {
                // server learns the client's initial window
                if sy.w.is_none() {
                    sy.w = Some(rec.window as u32);
                }
                if sy.w_newest.is_none() {
                    sy.w_newest = Some((idx, 1, rec.window as u32));
                }
            }
            Kind::SynAck => {
                sy.est = true; // client is established once a SYN-ACK reached it
                sy.w = Some(rec.window as u32);
                if sy.w_newest.map(|(i, _, _)| idx > i).unwrap_or(true) {
                    sy.w_newest = Some((idx, rec.ack, rec.window as u32));
                }
                if rec.ack > sy.a && rec.ack <= sy.max_end.max(1) {
                    sy.a = rec.ack;
                }
            }
            _ => {
                if rec.ack_flag {
                    if dir == Dir::C2S && sender_est {
                        // an ACK-bearing non-SYN client segment reached the
                        // server after the client was established
                        sy.est = true;
                    }
                    sy.w = Some(rec.window as u32);
                    if sy.w_newest.map(|(i, _, _)| idx > i).unwrap_or(true) {
                        sy.w_newest = Some((idx, rec.ack, rec.window as u32));
                    }
                    if rec.ack > sy.a && rec.ack <= sy.max_end {
                        sy.a = rec.ack;
                        let c = &self.sh.ack_progress[dir.rev().idx()];
                        c.set(c.get() + 1);
                    }
                }
            }
        }
    }

    fn state_hash(&self, pending_now: &[usize], batch_rest: &[Packet]) -> u64 {
        let mut h = Fnv::new();
        h.write_str(&turmoil_net::verif::debug_dump());
        {
            let hist = self.sh.hist.borrow();
            for d in &hist.dirs {
                h.write_str(&format!(
                    "{} {} {} {} {} {:?} {:?} {:?} {} {}",
                    d.written, d.write_calls, d.read_off, d.read_calls, d.eof, d.read_err, d.write_err, d.shutdown,
                    d.writer_done, d.reader_done
                ));
            }
            h.write_str(&format!("{:?} {:?} {}", hist.connect, hist.accept, hist.complaints.len()));
        }
        for t in self.exec.pending() {
            h.write_str(&t);
        }
        let mut held: Vec<(u64, usize)> = self.held.iter().map(|(due, i)| (due - self.round, *i)).collect();
        held.sort();
        for (rem, i) in held {
            h.write_u64(rem);
            h.write_str(&format!("{:?}", self.raw[i]));
        }
        h.write_str("|now|");
        for i in pending_now {
            h.write_str(&format!("{:?}", self.raw[*i]));
        }
        h.write_str("|rest|");
        for p in batch_rest {
            h.write_str(&format!("{p:?}"));
        }
        h.write_u64(self.drops as u64);
        h.finish()
    }

    /// One round. Returns false when the fate source aborted.
    pub fn step(&mut self, fates: &mut dyn Fates) -> bool {
        self.round += 1;
        self.diag.round = self.round;
        self.sh.clock.advance();
        let polls = self.exec.run_until_stalled();
        let mut out: Vec<Packet> = vec![];
        self.guard.as_ref().unwrap().egress_all(&mut out);
        // loopback packets seen through the tap were emitted and delivered
        // inside egress; account for them in processing order
        let tapped: Vec<Packet> = std::mem::take(&mut *self.tap.borrow_mut());
        let had_tap = !tapped.is_empty();
        for p in tapped {
            let rec = self.on_emit(&p, true);
            let idx = rec.idx;
            let dir = rec.dir;
            self.pkts.push(rec);
            self.raw.push(None);
            self.on_deliver(idx);
            if let Transport::Tcp(s) = &p.payload {
                self.diag.deliver(dir, s, idx as u64);
            }
        }
        let had_out = !out.is_empty();
        let mut now: Vec<usize> = vec![];
        let n_out = out.len();
        for (j, p) in out.iter().enumerate() {
            let rec = self.on_emit(p, false);
            let idx = rec.idx;
            self.pkts.push(rec);
            self.raw.push(Some(p.clone()));
            let state = if fates.wants_state(idx) {
                Some(self.state_hash(&now, &out[j..n_out]))
            } else {
                None
            };
            let choice = Choice {
                idx,
                rec: &self.pkts[idx],
                round: self.round,
                drops: self.drops,
                state,
            };
            let Some(mut f) = fates.decide(&choice) else {
                return false;
            };
            if f == Fate::Now && self.scn.latency > 0 {
                f = Fate::Hold(self.scn.latency);
            }
            self.pkts[idx].fate = f;
            match f {
                Fate::Now => now.push(idx),
                Fate::Hold(k) => {
                    self.held.push((self.round + k as u64, idx));
                    self.max_hold = self.max_hold.max(k);
                    self.last_fault_round = self.last_fault_round.max(self.round + k as u64);
                }
                Fate::Drop => {
                    self.drops += 1;
                    self.last_fault_round = self.last_fault_round.max(self.round);
                    self.raw[idx] = None;
                }
            }
        }
        // due packets
        let round = self.round;
        let mut due: Vec<usize> = self.held.iter().filter(|(d, _)| *d <= round).map(|(_, i)| *i).collect();
        self.held.retain(|(d, _)| *d > round);
        due.extend(now);
        due.sort();
        match &self.scn.order {
            Order::Emission => {}
            Order::Reverse => due.reverse(),
            Order::Shuffle(seed) => {
                let mut r = Rng::new(seed ^ vcore::rng::mix(round));
                r.shuffle(&mut due);
            }
        }
        let had_due = !due.is_empty();
        for idx in due {
            self.on_deliver(idx);
            if let Some(p) = self.raw[idx].take() {
                if let Transport::Tcp(s) = &p.payload {
                    self.diag.deliver(self.pkts[idx].dir, s, idx as u64);
                }
                self.guard.as_ref().unwrap().deliver(p);
            }
        }
        if self.monitors_on {
            self.quiescent_monitors();
        }
        let active = polls > 0 || had_out || had_tap || had_due || !self.held.is_empty();
        if active {
            self.idle_rounds = 0;
        } else {
            self.idle_rounds += 1;
        }
        true
    }

    fn quiescent_monitors(&mut self) {
        let cfg = self.scn.cfg.clone();
        let hosts: Vec<IpAddr> = if cfg.loopback { vec![self.ips[0]] } else { self.ips.to_vec() };
        for ip in hosts {
            let snap = turmoil_net::netstat(ip);
            for e in &snap.entries {
                if e.proto != turmoil_net::Proto::Tcp || e.peer.is_none() {
                    continue;
                }
                self.mon.count("netstat_entries_checked", 1);
                self.mon.max_send_q = self.mon.max_send_q.max(e.send_q);
                self.mon.max_recv_q = self.mon.max_recv_q.max(e.recv_q);
                if e.send_q == cfg.send_cap {
                    self.mon.count("send_q_at_cap", 1);
                }
                if e.recv_q == cfg.recv_cap {
                    self.mon.count("recv_q_at_cap", 1);
                }
                if e.send_q > cfg.send_cap {
                    self.mon.complain(
                        "send-q-over-cap",
                        format!("netstat {} -> {:?}: send_q={} > send_buf_cap={}", e.local, e.peer, e.send_q, cfg.send_cap),
                    );
                }
                if e.recv_q > cfg.recv_cap {
                    self.mon.complain(
                        "recv-q-over-cap",
                        format!("netstat {} -> {:?}: recv_q={} > recv_buf_cap={}", e.local, e.peer, e.recv_q, cfg.recv_cap),
                    );
                }
            }
        }
        // API-level conservation, from the wire and the API history only
        let hist = self.sh.hist.borrow();
        for dir in [Dir::C2S, Dir::S2C] {
            let sx = &self.sides[dir.idx()]; // sender of this direction
            let sy = &self.sides[dir.rev().idx()]; // receiver
            if sx.iss.is_none() || sx.dead || self.reincarnated {
                continue;
            }
            let d = hist.d(dir);
            let acked_bytes = sx.a.min(sx.max_data_end).saturating_sub(1);
            self.mon.count("conservation_evaluations", 1);
            if d.written.saturating_sub(acked_bytes) > cfg.send_cap as u64 {
                let detail = format!(
                    "{}: {} bytes accepted by writes, {} cumulatively ACKed on the wire: {} outstanding > send_buf_cap={}",
                    dir.as_str(),
                    d.written,
                    acked_bytes,
                    d.written - acked_bytes,
                    cfg.send_cap
                );
                drop_then(&mut self.mon, "send-conservation", detail);
            }
            let rx_acked = sy.max_ack_emitted.min(sx.max_data_end).saturating_sub(1);
            if rx_acked.saturating_sub(d.read_off) > cfg.recv_cap as u64 {
                let detail = format!(
                    "{}: receiver ACKed {} bytes, application read {}: {} buffered > recv_buf_cap={}",
                    dir.as_str(),
                    rx_acked,
                    d.read_off,
                    rx_acked - d.read_off,
                    cfg.recv_cap
                );
                drop_then(&mut self.mon, "recv-conservation", detail);
            }
        }
    }

    /// Number of "segment units" used in the liveness horizon: how many
    /// window/buffer-limited chunks the transfer needs, weighted by the pace
    /// the scenario's own programs impose (slow readers, delayed writers).
    pub fn segments(scn: &Scn) -> u64 {
        let mut total = 0u64;
        for d in [&scn.c2s, &scn.s2c] {
            let mut unit = scn.cfg.mss().min(scn.cfg.send_cap).min(scn.cfg.recv_cap).max(1);
            if d.read_pause > 0 {
                unit = unit.min(d.rbufs.iter().copied().min().unwrap_or(1).max(1));
            }
            let writes = d.total.div_ceil(d.wchunks.iter().copied().min().unwrap_or(1).min(scn.cfg.send_cap).max(1)) as u64 + 1;
            total += (d.total.div_ceil(unit) as u64 + 1) * (1 + d.read_pause as u64)
                + d.write_delay as u64
                + writes * d.write_pause as u64;
        }
        total
    }

    /// Fault-free rounds after the last fault within which everything must
    /// have completed (DESIGN.md C06).
    pub fn horizon(scn: &Scn, d: u32) -> u64 {
        let c = &scn.cfg;
        ((c.retx_threshold * (c.retx_max + 1) + d) as u64) * (Self::segments(scn) + 6)
    }

    fn run_inner(&mut self, fates: &mut dyn Fates, round_cap: u64) -> Outcome {
        let thr = self.scn.cfg.retx_threshold as u64;
        let stop;
        loop {
            if !self.step(fates) {
                stop = Stop::Aborted;
                break;
            }
            let done = self.pending_tasks().is_empty();
            // Early stop only once every task has finished (the rest of the
            // close handshake has drained). While tasks are waiting the run
            // always continues to the liveness horizon: the stack has silent
            // timers (retransmit / persist counters), so a quiet wire proves
            // nothing.
            if done && self.idle_rounds >= thr + 2 {
                stop = Stop::Complete;
                break;
            }
            let d = self.max_hold;
            if !done && self.round > self.last_fault_round + Self::horizon(&self.scn, d) {
                stop = Stop::Horizon;
                break;
            }
            if self.round >= round_cap {
                stop = if done { Stop::Complete } else { Stop::RoundCap };
                break;
            }
        }
        self.finish(stop)
    }

    pub fn pending_tasks(&self) -> Vec<String> {
        self.exec.pending().into_iter().filter(|n| !n.starts_with("daemon:")).collect()
    }

    fn finish(&mut self, stop: Stop) -> Outcome {
        let pending = self.pending_tasks();
        self.exec.drop_all();
        let final_counts: Vec<(usize, usize, usize)> = turmoil_net::verif::host_ids()
            .into_iter()
            .map(|h| turmoil_net::verif::host_counts_by_id(h).as_tuple())
            .collect();
        let hist = self.sh.hist.borrow().clone();
        Outcome {
            stop,
            rounds: self.round,
            hist,
            pkts: std::mem::take(&mut self.pkts),
            mon: std::mem::take(&mut self.mon),
            pending,
            drops: self.drops,
            max_hold: self.max_hold,
            last_fault_round: self.last_fault_round,
            overtakes: self.overtakes,
            retx_seen: self.retx_seen,
            final_counts,
            diag: self.diag.clone(),
            latency: self.scn.latency,
        }
    }

    /// Run to a stop condition. A panic raised by the code under test is
    /// caught and reported as `Stop::Panicked`; a panic of the harness itself
    /// propagates (the runner turns it into INCONCLUSIVE).
    pub fn run(mut self, fates: &mut dyn Fates, round_cap: u64) -> Outcome {
        let scn = self.scn.clone();
        let r = std::panic::catch_unwind(std::panic::AssertUnwindSafe(|| self.run_inner(fates, round_cap)));
        match r {
            Ok(o) => o,
            Err(p) => {
                let msg = vcore::take_last_panic().unwrap_or_else(|| vcore::panic_message(&*p));
                if !msg.contains("turmoil-net") {
                    drop(self);
                    std::panic::resume_unwind(p);
                }
                let round = self.round;
                let hist = self.sh.hist.borrow().clone();
                let pkts = std::mem::take(&mut self.pkts);
                drop(self);
                let _ = scn;
                Outcome {
                    stop: Stop::Panicked(msg),
                    rounds: round,
                    hist,
                    pkts,
                    mon: Mon::default(),
                    pending: vec![],
                    drops: 0,
                    max_hold: 0,
                    last_fault_round: 0,
                    overtakes: 0,
                    retx_seen: 0,
                    final_counts: vec![],
                    diag: Diag::default(),
                    latency: scn.latency,
                }
            }
        }
    }
}

impl Drop for Wire {
    fn drop(&mut self) {
        // sockets must be closed while the Net is still installed; after a
        // panic inside the stack its state may be inconsistent, so closing is
        // best effort
        let exec = &mut self.exec;
        if std::panic::catch_unwind(std::panic::AssertUnwindSafe(|| exec.drop_all())).is_err() {
            let _ = vcore::take_last_panic();
        }
        turmoil_net::verif::set_loopback_tap(None);
        self.guard = None;
    }
}

fn drop_then(m: &mut Mon, class: &str, detail: String) {
    m.complain(class, detail);
}

/// Execute a scenario with the schedule it carries.
pub fn run_scn(scn: &Scn, round_cap: u64) -> Outcome {
    let w = Wire::new(scn);
    match &scn.sched {
        Sched::Explicit(f) => {
            let mut fates = ExplicitFates::new(f);
            w.run(&mut fates, round_cap)
        }
        Sched::Random(p) => {
            let mut fates = RandomFates::new(p);
            w.run(&mut fates, round_cap)
        }
    }
}

pub fn outcome_json(o: &Outcome, max_pkts: usize, max_events: usize) -> Value {
    json!({
        "stop": format!("{:?}", o.stop),
        "rounds": o.rounds,
        "drops": o.drops,
        "max_hold": o.max_hold,
        "pending_tasks": o.pending,
        "packets": o.pkts.iter().take(max_pkts).map(|p| p.line()).collect::<Vec<_>>(),
        "packets_total": o.pkts.len(),
        "api": o.hist.events.iter().take(max_events).cloned().collect::<Vec<_>>(),
    })
}
