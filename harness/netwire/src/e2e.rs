//! End-to-end runs through the crate's own fixtures (`fixture::lo`,
//! `fixture::ClientServer`) with seeded rule-driven loss / latency. The rule
//! counts what it dropped and delayed, so the envelope test is exact.

use std::cell::{Cell, RefCell};
use std::collections::BTreeMap;
use std::net::{IpAddr, Ipv4Addr, Ipv6Addr, SocketAddr};
use std::rc::Rc;
use std::time::Duration;

use serde_json::{json, Value};
use turmoil_net::fixture::{self, ClientServer};
use turmoil_net::shim::tokio::net::{TcpListener, TcpStream};
use turmoil_net::{Packet, Transport, Verdict};
use vcore::Rng;

use crate::diag::Diag;
use crate::exec::{RoundClock, Spawner};
use crate::prog::{reader, writer, Hist, Shared, SERVER_PORT};
use crate::scn::*;
use crate::wire::{kernel_config, Mon, Outcome, Stop, Wire};

#[derive(Clone, Debug, PartialEq)]
pub struct E2e {
    /// "lo" or "cs"
    pub fixture: String,
    pub cfg: Cfg,
    pub c2s: DirSpec,
    pub s2c: DirSpec,
    pub seed: u64,
    pub p_drop: f64,
    pub max_drops: u32,
    pub p_delay: f64,
    pub d_ms: u32,
}

impl E2e {
    pub fn to_json(&self) -> Value {
        json!({"fixture": self.fixture, "cfg": self.cfg.to_json(), "c2s": self.c2s.to_json(),
               "s2c": self.s2c.to_json(), "seed": self.seed.to_string(), "p_drop": self.p_drop,
               "max_drops": self.max_drops, "p_delay": self.p_delay, "d_ms": self.d_ms})
    }
    pub fn from_json(v: &Value) -> Option<E2e> {
        Some(E2e {
            fixture: v["fixture"].as_str()?.to_string(),
            cfg: Cfg::from_json(&v["cfg"]),
            c2s: DirSpec::from_json(&v["c2s"]),
            s2c: DirSpec::from_json(&v["s2c"]),
            seed: v["seed"].as_str()?.parse().ok()?,
            p_drop: v["p_drop"].as_f64().unwrap_or(0.0),
            max_drops: v["max_drops"].as_u64().unwrap_or(0) as u32,
            p_delay: v["p_delay"].as_f64().unwrap_or(0.0),
            d_ms: v["d_ms"].as_u64().unwrap_or(0) as u32,
        })
    }
    pub fn canon(&self) -> String {
        format!(
            "e2e-{}|cfg={}|c2s={}|s2c={}|loss=seed{},p{:.2},max{},delay{:.2}x{}ms",
            self.fixture,
            self.cfg.canon(),
            self.c2s.canon(),
            self.s2c.canon(),
            self.seed,
            self.p_drop,
            self.max_drops,
            self.p_delay,
            self.d_ms
        )
    }
    fn as_scn(&self) -> Scn {
        Scn {
            cfg: self.cfg.clone(),
            c2s: self.c2s.clone(),
            s2c: self.s2c.clone(),
            sched: Sched::Explicit(vec![]),
            order: Order::Emission,
            latency: 0,
        }
    }
}

#[derive(Default, Clone, Debug)]
pub struct RuleStats {
    pub seen: BTreeMap<String, u64>,
    pub dropped: BTreeMap<String, u64>,
    pub delayed: BTreeMap<String, u64>,
    pub drops: u32,
    pub max_delay_ms: u32,
}

pub struct E2eOut {
    pub hist: Hist,
    pub stats: RuleStats,
    pub timed_out: bool,
    pub server_done: bool,
    pub client_done: bool,
    pub horizon_ms: u64,
    pub diag: Diag,
}

/// What the counting rule keeps: statistics plus the wire diagnosis, fed in
/// the order the fixture's scheduler delivers (due packets first, in
/// (deadline, evaluation order), then the packets evaluated in this tick).
#[derive(Default)]
struct RuleState {
    stats: RuleStats,
    diag: Diag,
    pending: Vec<(u64, u64, Dir, turmoil_net::TcpSegment)>,
    seq: u64,
}

impl RuleState {
    fn flush(&mut self, now_ms: u64) {
        let mut due: Vec<(u64, u64, Dir, turmoil_net::TcpSegment)> = vec![];
        let mut keep = vec![];
        for e in self.pending.drain(..) {
            if e.0 <= now_ms {
                due.push(e);
            } else {
                keep.push(e);
            }
        }
        self.pending = keep;
        due.sort_by_key(|e| (e.0, e.1));
        for (at, _q, dir, seg) in due {
            self.diag.round = at;
            self.diag.deliver(dir, &seg, _q);
        }
        self.diag.round = now_ms;
    }
}

fn kind_of(p: &Packet) -> &'static str {
    match &p.payload {
        Transport::Udp(_) => "UDP",
        Transport::Tcp(s) => {
            if s.flags.rst {
                "RST"
            } else if s.flags.syn && s.flags.ack {
                "SYNACK"
            } else if s.flags.syn {
                "SYN"
            } else if s.flags.fin {
                "FIN"
            } else if !s.payload.is_empty() {
                "DATA"
            } else {
                "ACK"
            }
        }
    }
}

fn shared(d: &E2e) -> Rc<Shared> {
    Rc::new(Shared {
        hist: RefCell::new(Hist::default()),
        clock: Rc::new(RoundClock::default()),
        spawner: Spawner::default(),
        cfg: d.cfg.clone(),
        specs: [d.c2s.clone(), d.s2c.clone()],
        ack_progress: [Cell::new(0), Cell::new(0)],
        netstat_ip: [None, None],
        max_events: 200,
    })
}

async fn serve(sh: Rc<Shared>, bind: SocketAddr, done: Rc<Cell<bool>>) {
    match TcpListener::bind(bind).await {
        Ok(l) => match l.accept().await {
            Ok((s, _)) => {
                sh.hist.borrow_mut().accept = Some(Ok(()));
                let (r, w) = s.into_split();
                tokio::join!(writer(sh.clone(), w, Dir::S2C, 1), reader(sh.clone(), r, Dir::C2S));
                done.set(true);
                // keep the listener until the fixture ends
                std::future::pending::<()>().await;
            }
            Err(e) => sh.hist.borrow_mut().accept = Some(Err(format!("{:?}", e.kind()))),
        },
        Err(e) => sh.hist.borrow_mut().accept = Some(Err(format!("bind:{:?}", e.kind()))),
    }
    done.set(true);
}

async fn client(sh: Rc<Shared>, server: SocketAddr, done: Rc<Cell<bool>>) {
    match TcpStream::connect(server).await {
        Ok(s) => {
            sh.hist.borrow_mut().connect = Some(Ok(()));
            let (r, w) = s.into_split();
            tokio::join!(writer(sh.clone(), w, Dir::C2S, 0), reader(sh.clone(), r, Dir::S2C));
        }
        Err(e) => sh.hist.borrow_mut().connect = Some(Err(format!("{:?}", e.kind()))),
    }
    done.set(true);
}

pub fn run(d: &E2e) -> E2eOut {
    let sh = shared(d);
    let state = Rc::new(RefCell::new(RuleState::default()));
    let sdone = Rc::new(Cell::new(false));
    let cdone = Rc::new(Cell::new(false));
    let horizon_ms = Wire::horizon(&d.as_scn(), d.d_ms) + 50;
    let timed_out;
    if d.fixture == "lo" {
        let ip: IpAddr = if d.cfg.v6 { IpAddr::V6(Ipv6Addr::LOCALHOST) } else { IpAddr::V4(Ipv4Addr::LOCALHOST) };
        let addr = SocketAddr::new(ip, SERVER_PORT);
        let (sh2, s2, c2) = (sh.clone(), sdone.clone(), cdone.clone());
        timed_out = fixture::lo_with_config(kernel_config(&d.cfg), async move {
            let s3 = s2.clone();
            let both = async {
                let srv = tokio::task::spawn_local(serve(sh2.clone(), addr, s3.clone()));
                client(sh2.clone(), addr, c2.clone()).await;
                while !s3.get() {
                    tokio::time::sleep(Duration::from_millis(1)).await;
                }
                srv.abort();
            };
            tokio::time::timeout(Duration::from_millis(horizon_ms), both).await.is_err()
        });
    } else {
        let ips: [IpAddr; 2] = if d.cfg.v6 {
            [
                IpAddr::V6(Ipv6Addr::new(0xfd00, 0, 0, 0, 0, 0, 0, 1)),
                IpAddr::V6(Ipv6Addr::new(0xfd00, 0, 0, 0, 0, 0, 0, 2)),
            ]
        } else {
            [IpAddr::V4(Ipv4Addr::new(10, 0, 0, 1)), IpAddr::V4(Ipv4Addr::new(10, 0, 0, 2))]
        };
        let wildcard: IpAddr = if d.cfg.v6 { IpAddr::V6(Ipv6Addr::UNSPECIFIED) } else { IpAddr::V4(Ipv4Addr::UNSPECIFIED) };
        let bind = SocketAddr::new(wildcard, SERVER_PORT);
        let saddr = SocketAddr::new(ips[1], SERVER_PORT);
        let (sh_s, sd_s) = (sh.clone(), sdone.clone());
        let (sh_c, sd_c, cd_c) = (sh.clone(), sdone.clone(), cdone.clone());
        let st = state.clone();
        let dd = d.clone();
        let client_ip = ips[0];
        timed_out = ClientServer::with_config(kernel_config(&d.cfg))
            .server(ips[1], async move { serve(sh_s, bind, sd_s).await })
            .run(ips[0], async move {
                let mut rng = Rng::new(dd.seed);
                let t0 = tokio::time::Instant::now();
                turmoil_net::rule(move |p: &Packet| {
                    let k = kind_of(p);
                    let mut guard = st.borrow_mut();
                    let rs = &mut *guard;
                    let now_ms = t0.elapsed().as_millis() as u64;
                    rs.diag.round = now_ms;
                    rs.flush(now_ms);
                    let dir = if p.src == client_ip { Dir::C2S } else { Dir::S2C };
                    let seg = match &p.payload {
                        Transport::Tcp(s) => Some(s.clone()),
                        _ => None,
                    };
                    rs.seq += 1;
                    let order = rs.seq;
                    if let Some(sg) = &seg {
                        rs.diag.emit(dir, sg);
                    }
                    let s = &mut rs.stats;
                    *s.seen.entry(k.to_string()).or_default() += 1;
                    let a = rng.chance(dd.p_drop);
                    let b = rng.chance(dd.p_delay);
                    let ms = if dd.d_ms > 0 { rng.range(1, dd.d_ms as u64) as u32 } else { 0 };
                    if a && s.drops < dd.max_drops {
                        s.drops += 1;
                        *s.dropped.entry(k.to_string()).or_default() += 1;
                        Verdict::Drop
                    } else if b && ms > 0 {
                        *s.delayed.entry(k.to_string()).or_default() += 1;
                        s.max_delay_ms = s.max_delay_ms.max(ms);
                        if let Some(sg) = seg {
                            rs.pending.push((now_ms + ms as u64, order, dir, sg));
                        }
                        Verdict::Deliver(Duration::from_millis(ms as u64))
                    } else {
                        if let Some(sg) = &seg {
                            rs.diag.deliver(dir, sg, order);
                        }
                        Verdict::Pass
                    }
                })
                .forget();
                let both = async {
                    client(sh_c.clone(), saddr, cd_c.clone()).await;
                    while !sd_c.get() {
                        tokio::time::sleep(Duration::from_millis(1)).await;
                    }
                };
                tokio::time::timeout(Duration::from_millis(horizon_ms), both).await.is_err()
            });
    }
    let hist = sh.hist.borrow().clone();
    let (stats, diag) = {
        let mut rs = state.borrow_mut();
        rs.flush(u64::MAX);
        (rs.stats.clone(), rs.diag.clone())
    };
    E2eOut {
        hist,
        stats,
        timed_out,
        server_done: sdone.get(),
        client_done: cdone.get(),
        horizon_ms,
        diag,
    }
}

/// Same oracle as the wire engine's, on the fixture run's history: the run is
/// presented as an `Outcome` whose fault counts come from the counting rule.
pub fn judge(d: &E2e, o: &E2eOut) -> Vec<crate::oracle::Complaint> {
    let unfinished = o.timed_out || !o.server_done || !o.client_done;
    let po = Outcome {
        stop: if unfinished { Stop::Horizon } else { Stop::Complete },
        rounds: o.horizon_ms,
        hist: o.hist.clone(),
        pkts: vec![],
        mon: Mon::default(),
        pending: if unfinished { vec!["fixture".to_string()] } else { vec![] },
        drops: o.stats.drops,
        max_hold: o.stats.max_delay_ms,
        last_fault_round: 0,
        overtakes: 0,
        retx_seen: 0,
        final_counts: vec![],
        diag: o.diag.clone(),
        latency: 0,
    };
    let mut v = crate::oracle::judge(&d.as_scn(), &po).complaints;
    for c in v.iter_mut() {
        c.detail = format!("{} [fixture rule dropped {:?}, delayed {:?}]", c.detail, o.stats.dropped, o.stats.delayed);
    }
    v
}
