//! C06 oracle over an `Outcome` (byte-stream history + envelope), witness
//! minimisation and signatures.

use serde_json::{json, Value};

use crate::scn::*;
use crate::wire::{outcome_json, run_scn, Outcome, Stop};

#[derive(Clone, Debug)]
pub struct Complaint {
    pub class: String,
    /// short, stable qualifier that is part of the signature (e.g. which
    /// operation failed with which error kind)
    pub kind: String,
    pub detail: String,
    /// the wire history shows exactly the situation of a known, unrepaired
    /// defect: the signature is that defect's, independent of the schedule
    pub diagnosed: bool,
}

#[derive(Clone, Debug, Default)]
pub struct Verdict {
    pub complaints: Vec<Complaint>,
    pub in_envelope: bool,
    pub complete: bool,
    pub undetermined: Option<String>,
}

/// Longest hold (in rounds) that, together with `drops` dropped packets,
/// still cannot cause a legitimate retransmit exhaustion. Worst case all drops
/// hit the transmissions (or ACKs) of the oldest unacknowledged segment: its
/// first surviving transmission leaves `threshold*drops` passes after the
/// retransmit count started, its ACK is back `2*hold + 1` rounds later (at the
/// end of that round), and the abort fires at the egress of pass
/// `threshold*(max+1)`. One further retransmit period is kept in reserve,
/// because the stack itself may discard one transmission that the wire
/// delivered (first flight beyond the receiver's real buffer, SYN counted one
/// pass early, ...):
/// `threshold*drops + 2*hold + 1 <= threshold*(max+1) - 1 - threshold`.
/// Holds below `retx_threshold` are always inside (the rule validated first).
pub fn max_hold_for(cfg: &Cfg, drops: u32) -> Option<u32> {
    if drops >= cfg.retx_max {
        return None;
    }
    let floor = cfg.retx_threshold.saturating_sub(1);
    let abort = cfg.retx_threshold * (cfg.retx_max + 1);
    let used = cfg.retx_threshold * drops + 2 + cfg.retx_threshold;
    let by_formula = if used > abort { 0 } else { (abort - used) / 2 };
    Some(by_formula.max(floor))
}

pub fn in_envelope(scn: &Scn, drops: u32, max_hold: u32) -> bool {
    match max_hold_for(&scn.cfg, drops) {
        Some(d) => max_hold <= d,
        None => false,
    }
}

const SAFETY_CLASSES: [&str; 5] = ["corrupt", "phantom", "bytes-after-eof", "bytes-after-error", "write-count"];

pub fn judge(scn: &Scn, o: &Outcome) -> Verdict {
    let mut v = Verdict::default();
    if o.stop == Stop::Aborted {
        v.undetermined = Some("aborted".into());
        return v;
    }
    if let Stop::Panicked(msg) = &o.stop {
        // the stack itself panicked under a legitimate workload
        let loc = msg.rsplit(" @ ").next().unwrap_or("").rsplit('/').next().unwrap_or("").to_string();
        v.complaints.push(Complaint {
            class: "panic".into(),
            diagnosed: false,
            kind: loc,
            detail: format!("turmoil-net panicked in round {}: {msg}", o.rounds),
        });
        return v;
    }
    // ---- safety: always ---------------------------------------------------
    for (class, detail) in &o.hist.complaints {
        if SAFETY_CLASSES.contains(&class.as_str()) {
            v.complaints.push(Complaint {
                class: class.clone(),
                kind: String::new(),
                detail: detail.clone(),
                diagnosed: false,
            });
        }
    }
    for dir in [Dir::C2S, Dir::S2C] {
        let d = o.hist.d(dir);
        if d.eof && d.read_off < d.written {
            v.complaints.push(Complaint {
                class: "eof-early".into(),
                diagnosed: false,
                kind: dir.as_str().into(),
                detail: format!(
                    "{}: reader saw end-of-file after {} bytes although {} bytes were accepted from the writer (silent loss)",
                    dir.as_str(),
                    d.read_off,
                    d.written
                ),
            });
        }
    }
    // ---- bounded liveness: inside the envelope only --------------------------
    v.in_envelope = in_envelope(scn, o.drops, o.max_hold);
    let mut errors: Vec<(String, String)> = vec![];
    if let Some(Err(e)) = &o.hist.connect {
        errors.push(("connect".into(), e.clone()));
    }
    if let Some(Err(e)) = &o.hist.accept {
        errors.push(("accept".into(), e.clone()));
    }
    for dir in [Dir::C2S, Dir::S2C] {
        let d = o.hist.d(dir);
        if let Some(e) = &d.write_err {
            errors.push((format!("{}-write", dir.as_str()), e.clone()));
        }
        if let Some(Err(e)) = &d.shutdown {
            errors.push((format!("{}-shutdown", dir.as_str()), e.clone()));
        }
        if let Some(e) = &d.read_err {
            errors.push((format!("{}-read", dir.as_str()), e.clone()));
        }
    }
    let all_read = [Dir::C2S, Dir::S2C].iter().all(|&dir| {
        let d = o.hist.d(dir);
        d.eof && d.read_off == scn.dir(dir).total as u64
    });
    v.complete = o.pending.is_empty() && errors.is_empty() && all_read;
    if v.in_envelope {
        if o.stop == Stop::RoundCap {
            v.undetermined = Some("round-cap".into());
        } else if !errors.is_empty() {
            let (op, e) = &errors[0];
            v.complaints.push(Complaint {
                class: "abort".into(),
                diagnosed: false,
                kind: format!("{op}:{e}"),
                detail: format!(
                    "{} drop(s), holds <= {} round(s) (inside the envelope: retx_max={}, retx_threshold={}), yet {} failed with {} [{}]",
                    o.drops,
                    o.max_hold,
                    scn.cfg.retx_max,
                    scn.cfg.retx_threshold,
                    op,
                    e,
                    errors.iter().map(|(a, b)| format!("{a}:{b}")).collect::<Vec<_>>().join(", ")
                ),
            });
        } else if !o.pending.is_empty() {
            let mut stuck = vec![];
            for dir in [Dir::C2S, Dir::S2C] {
                let d = o.hist.d(dir);
                stuck.push(format!(
                    "{} written {}/{} read {} eof={}",
                    dir.as_str(),
                    d.written,
                    scn.dir(dir).total,
                    d.read_off,
                    d.eof
                ));
            }
            v.complaints.push(Complaint {
                class: "stall".into(),
                diagnosed: false,
                kind: o.pending.join("+"),
                detail: format!(
                    "{} drop(s), holds <= {} round(s) (inside the envelope); after round {} ({:?}, last fault at round {}) tasks still waiting: {} [{}]",
                    o.drops,
                    o.max_hold,
                    o.rounds,
                    o.stop,
                    o.last_fault_round,
                    o.pending.join(", "),
                    stuck.join("; ")
                ),
            });
        } else if !all_read {
            v.complaints.push(Complaint {
                class: "incomplete".into(),
                diagnosed: false,
                kind: String::new(),
                detail: "all tasks finished without error but not every byte and end-of-file was read".into(),
            });
        }
    } else if !o.pending.is_empty() && errors.is_empty() {
        v.undetermined = Some("outside-envelope-hang".into());
    }
    diagnose(scn, o, &errors, &mut v);
    v
}

/// Attach the stable signature of a known, unrepaired defect to a liveness
/// complaint when the wire history shows exactly that defect's situation
/// (see `diag.rs`). The complaint is still reported; it is only identified.
fn diagnose(scn: &Scn, o: &Outcome, errors: &[(String, String)], v: &mut Verdict) {
    for c in v.complaints.iter_mut() {
        if c.class == "stall" {
            let (mut unfinished, mut explained) = (0, 0);
            for dir in [Dir::C2S, Dir::S2C] {
                let d = o.hist.d(dir);
                if d.eof && d.read_off == scn.dir(dir).total as u64 {
                    continue;
                }
                unfinished += 1;
                let fin_requested = d.writer_done && matches!(d.shutdown, Some(Ok(())));
                if o.diag.zero_window_deadlock(dir, d.written, fin_requested) {
                    explained += 1;
                }
            }
            if unfinished > 0 && explained == unfinished {
                c.kind = "zero-window-deadlock".into();
                c.diagnosed = true;
                c.detail = format!(
                    "sender idle behind a zero window although the receiver has advertised an open one since (update lost or overtaken; no persist timer) — {}",
                    c.detail
                );
            }
        } else if c.class == "abort" && !errors.is_empty() {
            for x in [Dir::C2S, Dir::S2C] {
                // operations of the side that sends in direction x
                let own = [
                    format!("{}-write", x.as_str()),
                    format!("{}-shutdown", x.as_str()),
                    format!("{}-read", x.rev().as_str()),
                ];
                let only_own_timeouts = errors.iter().all(|(op, e)| own.contains(op) && e.starts_with("TimedOut"));
                if only_own_timeouts && o.diag.fin_ack_lost_for_good(x, scn.cfg.retx_max, scn.cfg.retx_threshold) {
                    c.kind = "closed-peer-ignores-fin".into();
                    c.diagnosed = true;
                    c.detail = format!(
                        "the ACK of the {} side's FIN was emitted by the peer but never delivered; the peer (Closed, no TIME_WAIT) ignored every FIN retransmission until the retransmit budget ran out — {}",
                        if x == Dir::C2S { "client" } else { "server" },
                        c.detail
                    );
                }
            }
        }
    }
}

pub fn signature(prop: &str, c: &Complaint, scn: &Scn) -> String {
    if c.diagnosed {
        format!("{prop}|{}|{}", c.class, c.kind)
    } else {
        format!("{prop}|{}|{}|{}", c.class, c.kind, scn.canon())
    }
}

/// Minimisation is expensive on a badly broken tree (every scenario fails):
/// only the first few complaints of a process are minimised, the rest are
/// reported with their full schedules.
pub fn minimise_ticket() -> bool {
    use std::sync::atomic::{AtomicUsize, Ordering};
    static USED: AtomicUsize = AtomicUsize::new(0);
    USED.fetch_add(1, Ordering::Relaxed) < 12
}

/// Does `scn` (explicit schedule) still produce a complaint of `class`?
fn still_fails(scn: &Scn, class: &str, cap: u64) -> bool {
    let o = run_scn(scn, cap);
    judge(scn, &o).complaints.iter().any(|c| c.class == class)
}

/// Shrink a failing scenario: fewest faults (ddmin), mildest fates, simplest
/// programs and configuration, such that the same complaint class remains.
pub fn minimise(scn: &Scn, class: &str, cap: u64, budget: usize) -> Scn {
    minimise_with(scn, &|s| still_fails(s, class, cap), budget)
}

/// Generic form: `fails` decides whether a candidate still shows the complaint.
pub fn minimise_with(scn: &Scn, fails: &dyn Fn(&Scn) -> bool, budget: usize) -> Scn {
    let mut cur = scn.clone();
    let mut calls = 0usize;
    let test = |s: &Scn, calls: &mut usize| -> bool {
        if *calls >= budget {
            return false;
        }
        *calls += 1;
        fails(s)
    };
    let faults_of = |s: &Scn| -> Vec<Fault> {
        match &s.sched {
            Sched::Explicit(f) => f.clone(),
            _ => vec![],
        }
    };
    for pass in 0..2 {
        // 1. order
        if cur.order != Order::Emission {
            let mut t = cur.clone();
            t.order = Order::Emission;
            if test(&t, &mut calls) {
                cur = t;
            }
        }
        // 2. faults
        let faults = faults_of(&cur);
        if faults.len() > 1 {
            let base = cur.clone();
            let min = vcore::ddmin::ddmin(
                faults,
                |sub| {
                    let mut t = base.clone();
                    t.sched = Sched::Explicit(sub.to_vec());
                    test(&t, &mut calls)
                },
                budget / 3 + 20,
            );
            cur.sched = Sched::Explicit(min);
        }
        if faults_of(&cur).len() == 1 {
            let mut t = cur.clone();
            t.sched = Sched::Explicit(vec![]);
            if test(&t, &mut calls) {
                cur = t;
            }
        }
        // 3. milder fates
        let n = faults_of(&cur).len();
        for i in 0..n {
            let mut f = faults_of(&cur);
            if let Fate::Hold(k) = f[i].fate {
                if k > 1 {
                    f[i].fate = Fate::Hold(1);
                    let mut t = cur.clone();
                    t.sched = Sched::Explicit(f);
                    if test(&t, &mut calls) {
                        cur = t;
                    }
                }
            }
        }
        // 4. programs and configuration
        let dflt = Cfg::default();
        let mut cands: Vec<Box<dyn Fn(&mut Scn)>> = vec![
            Box::new(|s| s.c2s.read_pause = 0),
            Box::new(|s| s.s2c.read_pause = 0),
            Box::new(|s| s.c2s.peek_every = 0),
            Box::new(|s| s.s2c.peek_every = 0),
            Box::new(|s| s.c2s.try_write = false),
            Box::new(|s| s.s2c.try_write = false),
            Box::new(|s| s.c2s.write_pause = 0),
            Box::new(|s| s.s2c.write_pause = 0),
            Box::new(|s| s.c2s.write_delay = 0),
            Box::new(|s| s.s2c.write_delay = 0),
            Box::new(|s| s.c2s.explicit_shutdown = true),
            Box::new(|s| s.s2c.explicit_shutdown = true),
            Box::new(|s| s.cfg.v6 = false),
            Box::new(|s| s.latency = 0),
        ];
        for t in [0usize, 1, 5, 40, 1000, 3000] {
            cands.push(Box::new(move |s| {
                if s.c2s.total > t {
                    s.c2s.total = t
                }
            }));
            cands.push(Box::new(move |s| {
                if s.s2c.total > t {
                    s.s2c.total = t
                }
            }));
        }
        cands.push(Box::new(|s| s.c2s.wchunks = vec![s.c2s.total.max(1)]));
        cands.push(Box::new(|s| s.s2c.wchunks = vec![s.s2c.total.max(1)]));
        cands.push(Box::new(|s| s.c2s.rbufs = vec![4096]));
        cands.push(Box::new(|s| s.s2c.rbufs = vec![4096]));
        cands.push(Box::new(|s| s.c2s.rbufs = vec![1]));
        cands.push(Box::new(|s| s.s2c.rbufs = vec![1]));
        let d1 = dflt.clone();
        cands.push(Box::new(move |s| s.cfg.mtu = d1.mtu));
        let d2 = dflt.clone();
        cands.push(Box::new(move |s| s.cfg.loopback_mtu = d2.loopback_mtu));
        let d3 = dflt.clone();
        cands.push(Box::new(move |s| s.cfg.send_cap = d3.send_cap));
        let d4 = dflt.clone();
        cands.push(Box::new(move |s| s.cfg.recv_cap = d4.recv_cap));
        for c in [8usize, 100, 1000] {
            cands.push(Box::new(move |s| {
                if s.cfg.recv_cap < c {
                    s.cfg.recv_cap = c
                }
            }));
            cands.push(Box::new(move |s| {
                if s.cfg.send_cap < c {
                    s.cfg.send_cap = c
                }
            }));
        }
        for c in cands {
            let mut t = cur.clone();
            c(&mut t);
            if t != cur && test(&t, &mut calls) {
                cur = t;
            }
        }
        if pass == 0 && calls >= budget {
            break;
        }
    }
    cur
}

/// Witness JSON: descriptor sufficient for `--replay` plus a trace excerpt.
pub fn witness(part: &str, scn: &Scn, o: &Outcome, original: Option<&Scn>) -> Value {
    json!({
        "part": part,
        "scn": scn.to_json(),
        "original_scn": original.map(|s| s.to_json()),
        "outcome": outcome_json(o, 80, 80),
    })
}
