//! Endpoint programs (connect / accept, one writer and one reader per
//! direction) and the API-level history they record.

use std::cell::{Cell, RefCell};
use std::net::{IpAddr, SocketAddr};
use std::rc::Rc;

use tokio::io::{AsyncReadExt, AsyncWriteExt};
use turmoil_net::shim::tokio::net::tcp::{OwnedReadHalf, OwnedWriteHalf};
use turmoil_net::shim::tokio::net::{TcpListener, TcpStream};
use turmoil_net::HostId;
use vcore::rng::{keyed_byte, keyed_bytes};

use crate::exec::{wait_rounds, RoundClock, Spawner};
use crate::scn::{Cfg, Dir, DirSpec};

pub const SERVER_PORT: u16 = 9000;

pub fn stream_key(dir: Dir) -> u64 {
    match dir {
        Dir::C2S => 0xC25C_25C2_5000_0001,
        Dir::S2C => 0x52C5_2C52_C000_0002,
    }
}

#[derive(Clone, Debug, Default)]
pub struct DirHist {
    /// bytes accepted by write calls so far
    pub written: u64,
    pub write_calls: u64,
    pub partial_writes: u64,
    pub wouldblock: u64,
    pub parked_writes: u64,
    pub writer_done: bool,
    pub write_err: Option<String>,
    /// result of shutdown() (or "dropped" for implicit FIN)
    pub shutdown: Option<Result<(), String>>,
    /// bytes returned by read calls so far
    pub read_off: u64,
    pub read_calls: u64,
    pub peeks: u64,
    pub eof: bool,
    pub read_err: Option<String>,
    pub reader_done: bool,
    /// first rounds at which things happened (witness readability)
    pub eof_round: Option<u64>,
}

#[derive(Clone, Debug, Default)]
pub struct Hist {
    pub dirs: [DirHist; 2],
    pub connect: Option<Result<(), String>>,
    pub accept: Option<Result<(), String>>,
    /// oracle complaints raised inline by the programs (class, detail)
    pub complaints: Vec<(String, String)>,
    /// bounded, human-readable API trace
    pub events: Vec<String>,
}

impl Hist {
    pub fn d(&self, dir: Dir) -> &DirHist {
        &self.dirs[dir.idx()]
    }
}

pub struct Shared {
    pub hist: RefCell<Hist>,
    pub clock: Rc<RoundClock>,
    pub spawner: Spawner,
    pub cfg: Cfg,
    pub specs: [DirSpec; 2],
    /// per sender direction: number of delivered ACKs that advanced the
    /// highest cumulative ACK seen by that sender (maintained by the wire
    /// tracker; read by the parked-write check)
    pub ack_progress: [Cell<u64>; 2],
    /// an address netstat can resolve, per endpoint [client, server]
    pub netstat_ip: [Option<IpAddr>; 2],
    pub max_events: usize,
}

impl Shared {
    pub fn log(&self, s: String) {
        let mut h = self.hist.borrow_mut();
        if h.events.len() < self.max_events {
            let r = self.clock.round.get();
            h.events.push(format!("r{r} {s}"));
        }
    }
    pub fn complain(&self, class: &str, detail: String) {
        self.log(format!("COMPLAINT {class}: {detail}"));
        self.hist.borrow_mut().complaints.push((class.to_string(), detail));
    }
    fn with<R>(&self, dir: Dir, f: impl FnOnce(&mut DirHist) -> R) -> R {
        f(&mut self.hist.borrow_mut().dirs[dir.idx()])
    }
}

fn ek(e: &std::io::Error) -> String {
    match e.raw_os_error() {
        Some(c) => format!("{:?}(os{})", e.kind(), c),
        None => format!("{:?}", e.kind()),
    }
}

/// Send-queue depth of the connection `(local, peer)` as netstat shows it.
fn send_q(ip: Option<IpAddr>, local: SocketAddr, peer: SocketAddr) -> Option<usize> {
    let ip = ip?;
    let snap = turmoil_net::netstat(ip);
    snap.entries
        .iter()
        .find(|e| e.local == local && e.peer == Some(peer))
        .map(|e| e.send_q)
}

pub async fn client_main(sh: Rc<Shared>, host: HostId, server: SocketAddr) {
    sh.log(format!("client connect({server})"));
    match TcpStream::connect(server).await {
        Ok(s) => {
            sh.log("client connect -> Ok".into());
            sh.hist.borrow_mut().connect = Some(Ok(()));
            let (r, w) = s.into_split();
            sh.spawner.spawn("client-writer", host, writer(sh.clone(), w, Dir::C2S, 0));
            sh.spawner.spawn("client-reader", host, reader(sh.clone(), r, Dir::S2C));
        }
        Err(e) => {
            sh.log(format!("client connect -> Err({})", ek(&e)));
            sh.hist.borrow_mut().connect = Some(Err(ek(&e)));
        }
    }
}

pub async fn server_main(sh: Rc<Shared>, host: HostId, bind: SocketAddr) {
    let listener = match TcpListener::bind(bind).await {
        Ok(l) => l,
        Err(e) => {
            sh.hist.borrow_mut().accept = Some(Err(format!("bind:{}", ek(&e))));
            return;
        }
    };
    sh.log(format!("server listening on {bind}"));
    match listener.accept().await {
        Ok((s, peer)) => {
            sh.log(format!("server accept -> Ok({peer})"));
            sh.hist.borrow_mut().accept = Some(Ok(()));
            let (r, w) = s.into_split();
            sh.spawner.spawn("server-writer", host, writer(sh.clone(), w, Dir::S2C, 1));
            sh.spawner.spawn("server-reader", host, reader(sh.clone(), r, Dir::C2S));
            // keep the listener for the rest of the scenario: a late SYN
            // retransmission must find the established child, and dropping a
            // listener is C13's business
            std::future::pending::<()>().await;
        }
        Err(e) => {
            sh.log(format!("server accept -> Err({})", ek(&e)));
            sh.hist.borrow_mut().accept = Some(Err(ek(&e)));
        }
    }
    drop(listener);
}

pub async fn writer(sh: Rc<Shared>, mut w: OwnedWriteHalf, dir: Dir, me: usize) {
    let spec = sh.specs[dir.idx()].clone();
    let key = stream_key(dir);
    let cap = sh.cfg.send_cap;
    let who = dir.as_str();
    if spec.write_delay > 0 {
        wait_rounds(&sh.clock, spec.write_delay as u64).await;
    }
    let (local, peer) = match (w.local_addr(), w.peer_addr()) {
        (Ok(l), Ok(p)) => (l, p),
        _ => {
            sh.complain("harness", format!("{who} writer: no addresses"));
            return;
        }
    };
    let nip = sh.netstat_ip[me];
    let mut off = 0usize;
    let mut i = 0usize;
    while off < spec.total {
        if spec.write_pause > 0 && off > 0 {
            wait_rounds(&sh.clock, spec.write_pause as u64).await;
        }
        let want = spec.wchunks[i % spec.wchunks.len()].max(1).min(spec.total - off);
        i += 1;
        let data = keyed_bytes(key, off as u64, want);
        sh.with(dir, |d| d.write_calls += 1);
        let mut accepted: Option<usize> = None;
        if spec.try_write {
            let sq = send_q(nip, local, peer);
            match w.try_write(&data) {
                Ok(k) => {
                    if let Some(sq) = sq {
                        let free = cap.saturating_sub(sq);
                        let expect = want.min(free);
                        if k != expect {
                            let exp = if expect == 0 { "WouldBlock".to_string() } else { format!("Ok({expect})") };
                            sh.complain(
                                "partial-write",
                                format!("{who} try_write({want}) with send_q={sq} cap={cap} returned Ok({k}), expected {exp}"),
                            );
                        }
                    }
                    accepted = Some(k);
                    sh.log(format!("{who} try_write({want}) send_q={sq:?} -> Ok({k})"));
                }
                Err(e) if e.kind() == std::io::ErrorKind::WouldBlock => {
                    sh.with(dir, |d| d.wouldblock += 1);
                    sh.log(format!("{who} try_write({want}) send_q={sq:?} -> WouldBlock"));
                    if let Some(sq) = sq {
                        if sq < cap {
                            sh.complain(
                                "wouldblock-with-space",
                                format!("{who} try_write({want}) returned WouldBlock with send_q={sq} < cap={cap}"),
                            );
                        }
                    }
                }
                Err(e) => {
                    sh.log(format!("{who} try_write({want}) -> Err({})", ek(&e)));
                    sh.with(dir, |d| {
                        d.write_err = Some(ek(&e));
                        d.writer_done = true;
                    });
                    return;
                }
            }
        }
        let k = match accepted {
            Some(k) => k,
            None => {
                let sq_before = send_q(nip, local, peer);
                let acks_before = sh.ack_progress[dir.idx()].get();
                let round_before = sh.clock.round.get();
                match w.write(&data).await {
                    Ok(k) => {
                        let parked = sh.clock.round.get() > round_before;
                        if parked {
                            sh.with(dir, |d| d.parked_writes += 1);
                            if sh.ack_progress[dir.idx()].get() == acks_before {
                                sh.complain(
                                    "parked-write-no-ack",
                                    format!("{who} write({want}) parked at round {round_before} completed with Ok({k}) although no ACK freeing space was delivered to the writer"),
                                );
                            }
                        } else if let Some(sq) = sq_before {
                            let expect = want.min(cap.saturating_sub(sq));
                            if k != expect {
                                sh.complain(
                                    "partial-write",
                                    format!("{who} write({want}) with send_q={sq} cap={cap} returned Ok({k}) immediately, expected Ok({expect})"),
                                );
                            }
                        }
                        sh.log(format!("{who} write({want}) send_q={sq_before:?} -> Ok({k}){}", if parked { " (parked)" } else { "" }));
                        k
                    }
                    Err(e) => {
                        sh.log(format!("{who} write({want}) -> Err({})", ek(&e)));
                        sh.with(dir, |d| {
                            d.write_err = Some(ek(&e));
                            d.writer_done = true;
                        });
                        return;
                    }
                }
            }
        };
        if k == 0 || k > want {
            sh.complain("write-count", format!("{who} write({want}) returned Ok({k})"));
            sh.with(dir, |d| d.writer_done = true);
            return;
        }
        if k < want {
            sh.with(dir, |d| d.partial_writes += 1);
            // a write is only cut short because the buffer filled up
            if let Some(sq) = send_q(nip, local, peer) {
                if sq < cap {
                    sh.complain(
                        "partial-write",
                        format!("{who} write({want}) accepted only {k} but send_q={sq} < cap={cap} afterwards"),
                    );
                }
            }
        }
        if let Some(sq) = send_q(nip, local, peer) {
            if sq > cap {
                sh.complain("send-q-over-cap", format!("{who} send_q={sq} > send_buf_cap={cap} right after a write"));
            }
        }
        off += k;
        sh.with(dir, |d| d.written += k as u64);
    }
    if spec.write_pause > 0 {
        wait_rounds(&sh.clock, spec.write_pause as u64).await;
    }
    if spec.explicit_shutdown {
        match w.shutdown().await {
            Ok(()) => {
                sh.log(format!("{who} shutdown -> Ok"));
                sh.with(dir, |d| d.shutdown = Some(Ok(())));
            }
            Err(e) => {
                sh.log(format!("{who} shutdown -> Err({})", ek(&e)));
                sh.with(dir, |d| d.shutdown = Some(Err(ek(&e))));
            }
        }
    } else {
        sh.log(format!("{who} drop write half"));
        sh.with(dir, |d| d.shutdown = Some(Ok(())));
    }
    sh.with(dir, |d| d.writer_done = true);
    drop(w);
}

pub async fn reader(sh: Rc<Shared>, mut r: OwnedReadHalf, dir: Dir) {
    let spec = sh.specs[dir.idx()].clone();
    let key = stream_key(dir);
    let who = dir.as_str();
    let mut i = 0usize;
    loop {
        if spec.read_pause > 0 {
            wait_rounds(&sh.clock, spec.read_pause as u64).await;
        }
        let n = spec.rbufs[i % spec.rbufs.len()].max(1);
        i += 1;
        let mut buf = vec![0u8; n];
        let off = sh.with(dir, |d| d.read_off);
        if spec.peek_every > 0 && (i as u32) % spec.peek_every == 0 {
            match r.peek(&mut buf).await {
                Ok(k) => {
                    sh.with(dir, |d| d.peeks += 1);
                    if let Some(j) = (0..k).find(|&j| buf[j] != keyed_byte(key, off + j as u64)) {
                        sh.complain(
                            "corrupt",
                            format!("{who} peek at offset {off} returned a byte that is not byte {} of the stream", off + j as u64),
                        );
                    }
                }
                Err(_) => { /* the read below reports it */ }
            }
        }
        sh.with(dir, |d| d.read_calls += 1);
        match r.read(&mut buf).await {
            Ok(0) => {
                sh.log(format!("{who} read({n}) -> EOF at offset {off}"));
                let round = sh.clock.round.get();
                sh.with(dir, |d| {
                    d.eof = true;
                    d.eof_round = Some(round);
                });
                break;
            }
            Ok(k) => {
                let written = sh.with(dir, |d| d.written);
                if let Some(j) = (0..k).find(|&j| buf[j] != keyed_byte(key, off + j as u64)) {
                    sh.complain(
                        "corrupt",
                        format!(
                            "{who} read({n}) at offset {off} returned {k} bytes; byte {} is not the stream's byte (lost / duplicated / reordered / altered data)",
                            off + j as u64
                        ),
                    );
                    sh.with(dir, |d| d.reader_done = true);
                    return;
                }
                if off + k as u64 > written {
                    sh.complain(
                        "phantom",
                        format!("{who} read returned bytes up to offset {} but only {written} were written", off + k as u64),
                    );
                }
                sh.with(dir, |d| d.read_off += k as u64);
                if sh.hist.borrow().events.len() + 50 < sh.max_events || k > 1 {
                    sh.log(format!("{who} read({n}) -> Ok({k}) [{off}..{}]", off + k as u64));
                }
            }
            Err(e) => {
                sh.log(format!("{who} read({n}) -> Err({}) at offset {off}", ek(&e)));
                sh.with(dir, |d| d.read_err = Some(ek(&e)));
                break;
            }
        }
    }
    // after EOF / an error no further bytes may appear
    let mut buf = [0u8; 16];
    match r.try_read(&mut buf) {
        Ok(0) | Err(_) => {}
        Ok(k) => {
            let what = if sh.with(dir, |d| d.eof) { "bytes-after-eof" } else { "bytes-after-error" };
            sh.complain(what, format!("{who} try_read after the stream ended returned {k} more bytes"));
        }
    }
    sh.with(dir, |d| d.reader_done = true);
    drop(r);
}
