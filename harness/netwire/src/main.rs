//! netwire: wire-level monitors for turmoil-net (C06, C16).

mod checks;
mod dfs;
mod diag;
mod e2e;
mod exec;
mod gen;
mod mixed;
mod oracle;
mod prog;
mod scn;
mod wire;

fn main() {
    let args: Vec<String> = std::env::args().collect();
    let ctx = vcore::Ctx::from_args(&args[1..]);
    vcore::install_quiet_panic_hook();
    match ctx.prop.as_str() {
        "C06" => checks::c06::run(&ctx),
        "C16" => checks::c16::run(&ctx),
        "probe" => checks::probe::run(&ctx),
        other => {
            println!("INCONCLUSIVE property={other} unknown to netwire (C06, C16)");
            std::process::exit(2);
        }
    }
}
