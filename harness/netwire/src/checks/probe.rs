//! Developer probe: run one scenario given as JSON (file path in `rest[0]`)
//! and print packets, API trace and both oracles' complaints.

use crate::oracle::judge;
use crate::scn::*;
use crate::wire::run_scn;

pub fn run(ctx: &vcore::Ctx) -> ! {
    let path = ctx.rest.first().expect("probe <scn.json>");
    if path == "directed" {
        for (name, scn) in crate::checks::c06::directed() {
            let o = run_scn(&scn, 60000);
            let v = judge(&scn, &o);
            match v.complaints.first() {
                Some(c) => println!("{name}: {}", crate::oracle::signature("C06", c, &scn)),
                None => println!("{name}: ok (complete={} rounds={})", v.complete, o.rounds),
            }
        }
        std::process::exit(0)
    }
    let txt = std::fs::read_to_string(path).expect("read scn");
    let v: serde_json::Value = serde_json::from_str(&txt).expect("json");
    let v = v.get("witness").cloned().unwrap_or(v);
    let v = v.get("scn").cloned().unwrap_or(v);
    let scn = Scn::from_json(&v).expect("scn");
    let scn = if let Some(class) = ctx.rest.get(1) {
        let m = crate::oracle::minimise(&scn, class, 60000, 5000);
        println!("minimised: {}", serde_json::to_string(&m.to_json()).unwrap());
        m
    } else {
        scn
    };
    println!("scn: {}", scn.canon());
    let o = run_scn(&scn, 5000);
    for p in &o.pkts {
        println!("{}", p.line());
    }
    for e in &o.hist.events {
        println!("{e}");
    }
    println!("stop={:?} rounds={} pending={:?} drops={} max_hold={} overtakes={} retx={} counts={:?}", o.stop, o.rounds, o.pending, o.drops, o.max_hold, o.overtakes, o.retx_seen, o.final_counts);
    let v = judge(&scn, &o);
    println!("in_envelope={} complete={} undetermined={:?}", v.in_envelope, v.complete, v.undetermined);
    for c in &v.complaints {
        println!("C06 COMPLAINT {} [{}]: {}", c.class, c.kind, c.detail);
    }
    for (c, d) in &o.mon.complaints {
        println!("C16 COMPLAINT {c}: {d}");
    }
    for (c, d) in &o.hist.complaints {
        println!("API COMPLAINT {c}: {d}");
    }
    println!("mon: {:?}", o.mon.counters);
    std::process::exit(0)
}
