//! C16 — turmoil-net never exceeds its buffer caps, the MSS or the peer's
//! window; UDP payloads beyond the MTU are rejected.

use std::cell::RefCell;
use std::net::{IpAddr, Ipv4Addr, Ipv6Addr, SocketAddr};
use std::rc::Rc;

use serde_json::{json, Value};
use turmoil_net::shim::tokio::net::UdpSocket;
use turmoil_net::{Net, Packet, Transport};
use vcore::{Ctx, Finish, Report, Rng, RunOpts, ScenarioOut};

use crate::exec::{wait_rounds, Exec, RoundClock};
use crate::gen;
use crate::oracle::minimise_with;
use crate::scn::*;
use crate::wire::{kernel_config, outcome_json, run_scn, Outcome};

const PROP: &str = "C16";
const ROUND_CAP: u64 = 60_000;

const API_CLASSES: [&str; 5] = [
    "partial-write",
    "wouldblock-with-space",
    "parked-write-no-ack",
    "send-q-over-cap",
    "write-count",
];

/// All C16 complaints of one run: wire/quiescent monitors + API clause.
fn complaints(o: &Outcome) -> Vec<(String, String)> {
    let mut v = o.mon.complaints.clone();
    if let crate::wire::Stop::Panicked(msg) = &o.stop {
        v.push(("panic".into(), format!("turmoil-net panicked in round {}: {msg}", o.rounds)));
    }
    for (c, d) in &o.hist.complaints {
        if API_CLASSES.contains(&c.as_str()) {
            v.push((c.clone(), d.clone()));
        }
    }
    v
}

fn explicit_of(scn: &Scn, o: &Outcome) -> Scn {
    let mut s = scn.clone();
    s.sched = Sched::Explicit(o.applied_faults());
    s
}

fn tcp_out(part: &str, scn: &Scn, minimise_it: bool) -> ScenarioOut {
    let mut out = ScenarioOut::default();
    let o = run_scn(scn, ROUND_CAP);
    out.digest = o.digest();
    for (k, n) in &o.mon.counters {
        out.count(k, *n);
    }
    for p in &o.pkts {
        out.count(&format!("packets_checked.{}", p.kind.as_str()), 1);
    }
    let mss = scn.cfg.mss();
    out.count("runs", 1);
    if scn.cfg.loopback {
        out.count("runs_loopback", 1);
    } else {
        out.count("runs_cross_host", 1);
    }
    if scn.cfg.v6 {
        out.count("runs_ipv6", 1);
    } else {
        out.count("runs_ipv4", 1);
    }
    if scn.cfg.send_cap < mss || scn.cfg.recv_cap < mss {
        out.count("runs_with_cap_below_one_mss", 1);
    }
    if scn.cfg.send_cap != scn.cfg.recv_cap {
        out.count("runs_with_asymmetric_caps", 1);
    }
    if o.drops > 0 {
        out.count("runs_with_loss", 1);
    }
    if o.overtakes > 0 {
        out.count("runs_with_reordering", 1);
    }
    for d in &o.hist.dirs {
        out.count("try_write_wouldblock_observed", d.wouldblock);
        out.count("partial_writes_observed", d.partial_writes);
        out.count("parked_writes_observed", d.parked_writes);
        out.count("write_calls", d.write_calls);
    }
    out.saw("max_payload_vs_mss", format!("mss={} max_payload={}", mss, o.mon.max_payload));
    let c = |k: &str| o.mon.counters.get(k).copied().unwrap_or(0);
    out.nontrivial = c("data_segments_checked_mss") >= 1
        && c("window_bound_evaluations") >= 1
        && (c("send_q_at_cap") + c("recv_q_at_cap") + c("zero_windows_advertised") + c("segments_exactly_mss") + c("window_bound_tight") > 0);
    out.sample = Some(json!({"part": part, "scn": scn.to_json(),
        "max_payload": o.mon.max_payload, "mss": mss, "max_send_q": o.mon.max_send_q, "max_recv_q": o.mon.max_recv_q,
        "max_bytes_beyond_delivered_ack": o.mon.max_inflight,
        "outcome": outcome_json(&o, 25, 15)}));
    let cs = complaints(&o);
    // complaints whose class carries an `@root-cause` tag were identified from
    // the wire as one specific known defect: their signature is that tag,
    // whatever the scenario. Every other class is reported with its minimised
    // scenario. One violation per distinct class and run.
    let mut seen: Vec<&str> = vec![];
    let mut untagged_done = false;
    for (class, detail) in cs.iter() {
        if seen.contains(&class.as_str()) {
            continue;
        }
        seen.push(class.as_str());
        if class.contains('@') {
            out.count(&format!("runs_hitting_known.{class}"), 1);
            out.violate(
                class,
                format!("{PROP}|{class}"),
                format!("{class}: {detail} — scenario {}", scn.canon()),
                json!({"part": part, "scn": explicit_of(scn, &o).to_json(), "outcome": outcome_json(&o, 60, 40)}),
            );
            continue;
        }
        if untagged_done {
            continue;
        }
        untagged_done = true;
        let ex = if matches!(scn.sched, Sched::Explicit(_)) { scn.clone() } else { explicit_of(scn, &o) };
        let class2 = class.clone();
        let fails = move |s: &Scn| complaints(&run_scn(s, ROUND_CAP)).iter().any(|(c, _)| *c == class2);
        if !fails(&ex) {
            panic!("explicit replay of a failing C16 walk does not reproduce {class}: {}", scn.canon());
        }
        let min = if minimise_it && crate::oracle::minimise_ticket() { minimise_with(&ex, &fails, 200) } else { ex.clone() };
        let o2 = run_scn(&min, ROUND_CAP);
        let detail2 = complaints(&o2)
            .into_iter()
            .find(|(c, _)| c == class)
            .map(|(_, d)| d)
            .unwrap_or_else(|| detail.clone());
        out.violate(
            class,
            format!("{PROP}|{class}||{}", min.canon()),
            format!("{class}: {detail2} — scenario {}", min.canon()),
            json!({"part": part, "scn": min.to_json(), "original_scn": scn.to_json(), "outcome": outcome_json(&o2, 80, 60)}),
        );
    }
    out
}

// ------------------------------------------------------------------ directed

pub fn directed() -> Vec<(&'static str, Scn)> {
    let d = |total: usize, w: Vec<usize>, r: Vec<usize>, tw: bool, pause: u32| DirSpec {
        total,
        wchunks: w,
        rbufs: r,
        try_write: tw,
        read_pause: pause,
        ..DirSpec::default()
    };
    let mk = |cfg: Cfg, c2s: DirSpec, s2c: DirSpec| Scn {
        cfg,
        c2s,
        s2c,
        sched: Sched::Explicit(vec![]),
        order: Order::Emission,
        latency: 0,
    };
    let none = || d(0, vec![1], vec![4096], false, 0);
    vec![
        // full send buffer: try_write must hit WouldBlock, then partial writes
        (
            "full-send-buffer",
            mk(
                Cfg { send_cap: 100, recv_cap: 100, ..Cfg::default() },
                d(1000, vec![64], vec![50], true, 2),
                none(),
            ),
        ),
        // window far below MSS, reader slower than writer
        (
            "tiny-window",
            mk(
                Cfg { recv_cap: 7, send_cap: 4096, ..Cfg::default() },
                d(200, vec![200], vec![3], true, 1),
                d(150, vec![10], vec![7], false, 0),
            ),
        ),
        // MTU one byte above the headers (MSS 1), IPv6
        (
            "mss-one-v6",
            mk(
                Cfg { mtu: 61, v6: true, ..Cfg::default() },
                d(60, vec![60], vec![10], false, 0),
                d(60, vec![7], vec![60], false, 0),
            ),
        ),
        // loopback with a small loopback MTU: segments are seen through the tap
        (
            "loopback-small-mtu",
            mk(
                Cfg { loopback: true, loopback_mtu: 61, mtu: 1500, send_cap: 100, recv_cap: 100, ..Cfg::default() },
                d(500, vec![100], vec![30], true, 1),
                d(300, vec![300], vec![300], false, 0),
            ),
        ),
        // a reordered ACK: {ack=502, window=499} is overtaken by {ack=1001,
        // window=0} and delivered after it; the sender must keep following the
        // peer's newest advertisement (hunted report C16-1)
        (
            "stale-ack-overtaken",
            Scn {
                cfg: Cfg { recv_cap: 1000, send_cap: 8000, ..Cfg::default() },
                c2s: DirSpec {
                    total: 3000,
                    wchunks: vec![1, 500, 499, 2000],
                    rbufs: vec![4096],
                    read_pause: 40,
                    write_pause: 2,
                    ..DirSpec::default()
                },
                s2c: DirSpec { total: 0, rbufs: vec![16], write_delay: 100, ..DirSpec::default() },
                sched: Sched::Explicit(vec![
                    Fault::parse("s2c:ACK#1:hold3").unwrap(),
                    Fault::parse("s2c:ACK#3:hold5").unwrap(),
                ]),
                order: Order::Emission,
                latency: 0,
            },
        ),
        // large transfer, default caps, MSS-sized segments exactly
        (
            "bulk-default",
            mk(Cfg::default(), d(200_000, vec![10_000], vec![10_000], true, 0), none()),
        ),
    ]
}

// ------------------------------------------------------------------ UDP

#[derive(Clone, Debug)]
struct UdpCase {
    cfg: Cfg,
    loopback_dst: bool,
    sizes: Vec<usize>,
}

impl UdpCase {
    fn to_json(&self) -> Value {
        json!({"cfg": self.cfg.to_json(), "loopback_dst": self.loopback_dst, "sizes": self.sizes})
    }
    fn from_json(v: &Value) -> Option<UdpCase> {
        Some(UdpCase {
            cfg: Cfg::from_json(&v["cfg"]),
            loopback_dst: v["loopback_dst"].as_bool()?,
            sizes: v["sizes"].as_array()?.iter().filter_map(|x| x.as_u64()).map(|x| x as usize).collect(),
        })
    }
    fn canon(&self) -> String {
        format!("udp|cfg={}|{}", self.cfg.canon(), if self.loopback_dst { "to-loopback" } else { "to-remote" })
    }
}

fn gen_udp(rng: &mut Rng) -> UdpCase {
    let mut cfg = gen::cfg(rng, gen::Flavor::C16);
    cfg.loopback = false;
    // MTUs around and above the UDP header sizes
    let hdr = cfg.ip_hdr() + 8;
    cfg.mtu = rng.pick_copy(&[hdr, hdr + 1, hdr + 2, 100.max(hdr + 1), 576, 1500, 9000]);
    cfg.loopback_mtu = rng.pick_copy(&[hdr + 1, 100.max(hdr + 1), 1500, 65536]);
    let loopback_dst = rng.chance(0.4);
    let max = cfg.udp_max(loopback_dst);
    let mut sizes = vec![0usize, 1, max.saturating_sub(1), max, max + 1, max + 2, max + 100, max * 2 + 1];
    sizes.push(rng.range(0, max as u64 + 50) as usize);
    rng.shuffle(&mut sizes);
    UdpCase { cfg, loopback_dst, sizes }
}

fn udp_out(case: &UdpCase) -> ScenarioOut {
    let mut out = ScenarioOut::default();
    let cfg = &case.cfg;
    let mut net = Net::with_config(kernel_config(cfg));
    let ips: [IpAddr; 2] = if cfg.v6 {
        [
            IpAddr::V6(Ipv6Addr::new(0xfd00, 0, 0, 0, 0, 0, 0, 1)),
            IpAddr::V6(Ipv6Addr::new(0xfd00, 0, 0, 0, 0, 0, 0, 2)),
        ]
    } else {
        [IpAddr::V4(Ipv4Addr::new(10, 0, 0, 1)), IpAddr::V4(Ipv4Addr::new(10, 0, 0, 2))]
    };
    let a = net.add_host(ips[0]);
    let _b = net.add_host(ips[1]);
    let guard = net.enter();
    let tap: Rc<RefCell<Vec<Packet>>> = Rc::new(RefCell::new(vec![]));
    {
        let t = tap.clone();
        turmoil_net::verif::set_loopback_tap(Some(Box::new(move |_a, p| t.borrow_mut().push(p.clone()))));
    }
    let dst_ip: IpAddr = if case.loopback_dst {
        if cfg.v6 {
            IpAddr::V6(Ipv6Addr::LOCALHOST)
        } else {
            IpAddr::V4(Ipv4Addr::LOCALHOST)
        }
    } else {
        ips[1]
    };
    let dst = SocketAddr::new(dst_ip, 7777);
    let wildcard: IpAddr = if cfg.v6 { IpAddr::V6(Ipv6Addr::UNSPECIFIED) } else { IpAddr::V4(Ipv4Addr::UNSPECIFIED) };
    // every size goes out through each of the four send paths of the shim:
    // unconnected send_to / try_send_to and, on a socket connected to the same
    // destination, send / try_send
    const PATHS: [&str; 4] = ["send_to", "try_send_to", "connected send", "connected try_send"];
    let results: Rc<RefCell<Vec<(usize, usize, Result<usize, (String, Option<i32>)>)>>> = Rc::new(RefCell::new(vec![]));
    let clock = Rc::new(RoundClock::default());
    let mut exec = Exec::default();
    {
        let (results, clock, sizes) = (results.clone(), clock.clone(), case.sizes.clone());
        exec.spawner.spawn("udp-sender", a, async move {
            let s = UdpSocket::bind(SocketAddr::new(wildcard, 0)).await.expect("bind");
            let c = UdpSocket::bind(SocketAddr::new(wildcard, 0)).await.expect("bind");
            c.connect(dst).await.expect("udp connect");
            for n in sizes {
                let buf = vec![0xabu8; n];
                for path in 0..4usize {
                    let r = match path {
                        0 => s.send_to(&buf, dst).await,
                        1 => s.try_send_to(&buf, dst),
                        2 => c.send(&buf).await,
                        _ => c.try_send(&buf),
                    };
                    results
                        .borrow_mut()
                        .push((n, path, r.map_err(|e| (format!("{:?}", e.kind()), e.raw_os_error()))));
                    wait_rounds(&clock, 1).await;
                }
            }
        });
    }
    let mtu_eff = if case.loopback_dst { cfg.loopback_mtu } else { cfg.mtu };
    let max = cfg.udp_max(case.loopback_dst);
    let mut complaints: Vec<(String, String)> = vec![];
    let mut seen = 0usize;
    let mut trace = vec![];
    for _round in 0..case.sizes.len() * 4 + 3 {
        clock.advance();
        exec.run_until_stalled();
        let mut wire: Vec<Packet> = vec![];
        guard.egress_all(&mut wire);
        let mut pkts: Vec<Packet> = std::mem::take(&mut *tap.borrow_mut());
        if !pkts.is_empty() {
            out.count("loopback_packets_via_tap", pkts.len() as u64);
        }
        pkts.extend(wire.iter().cloned());
        for p in wire {
            guard.deliver(p);
        }
        let res = results.borrow();
        while seen < res.len() {
            let (n, path, r) = &res[seen];
            let via = PATHS[*path];
            seen += 1;
            let emitted: Vec<&Packet> = pkts.iter().filter(|p| matches!(p.payload, Transport::Udp(_))).collect();
            trace.push(format!("{via}({n}) -> {r:?}; {} datagram(s) emitted", emitted.len()));
            out.count("udp_sends", 1);
            out.count(&format!("udp_sends_via.{}", via.replace(' ', "_")), 1);
            if *n > max {
                match r {
                    Err((_, Some(90))) => {
                        out.count("udp_oversize_rejected_emsgsize", 1);
                        if *path >= 2 {
                            out.count("udp_oversize_rejected_on_connected_socket", 1);
                        }
                    }
                    Err((k, c)) => complaints.push((
                        "udp-oversize-wrong-error".into(),
                        format!("{via} of {n} bytes (limit {max}, mtu {mtu_eff}) failed with {k}/{c:?}, expected raw OS error 90"),
                    )),
                    Ok(k) => complaints.push((
                        "udp-oversize-accepted".into(),
                        format!("{via} of {n} bytes returned Ok({k}) although the limit for mtu {mtu_eff} is {max}"),
                    )),
                }
                if !emitted.is_empty() {
                    complaints.push((
                        "udp-oversize-emitted".into(),
                        format!("{via} of {n} bytes (limit {max}) put {} datagram(s) on the wire", emitted.len()),
                    ));
                }
            } else {
                match r {
                    Ok(k) if *k == *n => out.count("udp_within_limit_accepted", 1),
                    other => complaints.push((
                        "udp-within-limit-refused".into(),
                        format!("{via} of {n} bytes (limit {max}) returned {other:?}"),
                    )),
                }
                if *n == max {
                    out.count("udp_exactly_at_limit", 1);
                }
                if emitted.len() != 1 {
                    complaints.push((
                        "udp-emission-count".into(),
                        format!("{via} of {n} bytes emitted {} datagrams", emitted.len()),
                    ));
                }
                for p in emitted {
                    let Transport::Udp(u) = &p.payload else { continue };
                    out.count("udp_datagrams_checked", 1);
                    if p.size() > mtu_eff || u.payload.len() != *n {
                        complaints.push((
                            "udp-datagram-size".into(),
                            format!("datagram of size {} (payload {}) for {via}({n}) on mtu {mtu_eff}", p.size(), u.payload.len()),
                        ));
                    }
                }
            }
        }
    }
    exec.drop_all();
    turmoil_net::verif::set_loopback_tap(None);
    drop(guard);
    let mut h = vcore::Fnv::new();
    h.write_str(&case.canon());
    for t in &trace {
        h.write_str(t);
    }
    out.digest = h.finish();
    out.nontrivial = trace.len() == case.sizes.len() * 4;
    out.count("udp_cases", 1);
    out.sample = Some(json!({"part": "udp", "case": case.to_json(), "limit": max, "trace": trace}));
    if let Some((class, detail)) = complaints.first() {
        out.violate(
            class,
            format!("{PROP}|{class}||{}", case.canon()),
            format!("{class}: {detail} — {}", case.canon()),
            json!({"part": "udp", "case": case.to_json(), "trace": trace}),
        );
    }
    out
}

// ------------------------------------------------------------------ entry

fn replay(ctx: &Ctx, w: Value) -> ! {
    let rep = vcore::run_single(ctx, move |_| {
        let part = w["part"].as_str().unwrap_or("");
        if part == "udp" {
            udp_out(&UdpCase::from_json(&w["case"]).expect("udp case"))
        } else if part == "mixed" {
            crate::mixed::run(&crate::mixed::MixedCase::from_json(&w["case"]).expect("mixed case"))
        } else {
            let scn = Scn::from_json(&w["scn"]).expect("scn");
            let o = run_scn(&scn, ROUND_CAP);
            for l in o.trace(300) {
                println!("# {l}");
            }
            for e in &o.hist.events {
                println!("# {e}");
            }
            let mut out = tcp_out(part, &scn, false);
            out.nontrivial = true;
            out
        }
    });
    vcore::finish(
        ctx,
        rep,
        Finish {
            level: "exploration",
            rule: "replay of one witness",
            assumptions: vec![],
            min_distinct: 0,
            required_counters: vec![],
        },
    )
}

pub fn run(ctx: &Ctx) -> ! {
    if let Some(w) = vcore::read_replay(ctx) {
        replay(ctx, w);
    }
    let n_dir = directed().len() as u64;
    let n_mdir = crate::mixed::directed().len() as u64;
    let n_mixed: u64 = ctx.pick(5_000, 200_000);
    let n_own: u64 = ctx.pick(30_000, 1_200_000);
    let n_shared: u64 = ctx.pick(15_000, 600_000);
    let n_udp: u64 = ctx.pick(5_000, 200_000);
    let total = n_dir + n_mdir + 11 * (n_own.div_ceil(6)).max(n_shared.div_ceil(3)).max(n_udp).max(n_mixed);
    let c2 = ctx.clone();
    let mut rep: Report = vcore::run_parallel(
        ctx,
        total,
        RunOpts {
            budget_s: ctx.pick(50.0, 780.0),
            scenario_timeout_s: ctx.pick(100.0, 600.0),
        },
        move |i| {
            if i < n_dir {
                let (name, scn) = &directed()[i as usize];
                let mut o = tcp_out("directed", scn, false);
                o.count("directed_scenarios", 1);
                o.saw("directed", name.to_string());
                return o;
            }
            if i < n_dir + n_mdir {
                let (name, case) = &crate::mixed::directed()[(i - n_dir) as usize];
                let mut o = crate::mixed::run(case);
                o.count("directed_scenarios", 1);
                o.saw("directed", name.to_string());
                return o;
            }
            // interleave the four generated parts 6 : 3 : 1 : 1 so that a budget
            // cut on a slow machine thins out every part alike
            let j = i - n_dir - n_mdir;
            let (block, r) = (j / 11, j % 11);
            let (part, k) = match r {
                0 => (2, block),
                1 => (3, block),
                2..=4 => (1, block * 3 + (r - 2)),
                _ => (0, block * 6 + (r - 5)),
            };
            match part {
                0 if k < n_own => {
                    let mut rng = Rng::new(c2.scenario_seed("c16-walk", k));
                    tcp_out("walk", &gen::walk(&mut rng, gen::Flavor::C16), true)
                }
                1 if k < n_shared => {
                    // the same walks C06 runs (same seed space), judged by C16's monitors
                    let mut c06 = c2.clone();
                    c06.prop = "C06".into();
                    let mut rng = Rng::new(c06.scenario_seed("c06-walk", k));
                    tcp_out("c06-walk", &gen::walk(&mut rng, gen::Flavor::C06), true)
                }
                2 if k < n_udp => {
                    let mut rng = Rng::new(c2.scenario_seed("c16-udp", k));
                    udp_out(&gen_udp(&mut rng))
                }
                3 if k < n_mixed => {
                    let mut rng = Rng::new(c2.scenario_seed("c16-mixed", k));
                    crate::mixed::run(&crate::mixed::gen(&mut rng))
                }
                _ => {
                    let mut o = ScenarioOut::default();
                    o.discarded = Some("index-padding".into());
                    o
                }
            }
        },
    );
    rep.max_samples = 6;
    vcore::finish(
        ctx,
        rep,
        Finish {
            level: "exploration",
            rule: "directed cap/MTU scenarios + mixed-interface cases (every host has a loopback connection and one end of a cross-host connection of the same family, all writers start in the same round, both socket-table orders, loopback_mtu above and below mtu, v4/v6; MSS monitor keyed by the interface the segment leaves from) + seeded walks over mtu/loopback_mtu/send_buf_cap/recv_buf_cap (incl. caps below one MSS, MSS = 1, asymmetric caps), IPv4/IPv6, loopback (packets observed through the hook #3 tap) and cross-host paths with drop/hold/reorder schedules, writers probing try_write against netstat + C06's walks re-judged + UDP payloads around the MTU limit through all four send paths (send_to, try_send_to, and send / try_send on a connected socket), loopback and remote destinations; monitors: payload <= MSS on every segment, bytes beyond the highest ACK delivered to the sender <= window of the newest (in the peer's emission order) advertisement delivered to it, advertised right edge (ack + window) never moves left, netstat send_q/recv_q <= caps after every round, API-level conservation, try_write/partial-write/parked-write return values; a TCP run is non-trivial when data segments and window bounds were evaluated and some bound was tight (queue at its cap, zero window, segment of exactly MSS, in-flight equal to the window); distinct = distinct digest of packet trace + API trace",
            assumptions: vec![
                "window clause: A = highest valid cumulative ACK the driver delivered to the sender, W = window of the newest ACK-bearing non-RST segment (in the peer's emission order; SYN/SYN-ACK before that) delivered to it, evaluated at emission per side once the wire shows that side established; an overtaken older ACK delivered later does not replace it".into(),
                "netstat is trusted for send_q / recv_q; the API-level conservation checks use only write/read return values and wire ACK numbers".into(),
            ],
            min_distinct: ctx.pick(4_000, 40_000),
            required_counters: vec![
                "data_segments_checked_mss",
                "segments_exactly_mss",
                "window_bound_evaluations",
                "window_bound_tight",
                "right_edge_evaluations",
                "zero_windows_advertised",
                "netstat_entries_checked",
                "send_q_at_cap",
                "recv_q_at_cap",
                "conservation_evaluations",
                "try_write_wouldblock_observed",
                "partial_writes_observed",
                "parked_writes_observed",
                "loopback_packets_via_tap",
                "runs_loopback",
                "runs_cross_host",
                "runs_ipv6",
                "runs_with_cap_below_one_mss",
                "runs_with_asymmetric_caps",
                "runs_with_loss",
                "runs_with_reordering",
                "udp_oversize_rejected_emsgsize",
                "udp_exactly_at_limit",
                "udp_datagrams_checked",
                "udp_sends_via.connected_send",
                "udp_sends_via.connected_try_send",
                "udp_sends_via.try_send_to",
                "udp_oversize_rejected_on_connected_socket",
                "mixed_cases",
                "mixed_passes_with_both_interfaces",
                "mixed_loopback_data_segments",
                "mixed_external_data_segments",
            ],
        },
    )
}
