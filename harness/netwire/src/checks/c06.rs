//! C06 — turmoil-net TCP survives drops, delays, reordering without
//! corruption or stall.

use serde_json::{json, Value};
use vcore::{Ctx, Finish, Report, Rng, RunOpts, ScenarioOut};

use crate::dfs::{explore, DfsSpec};
use crate::e2e::{self, E2e};
use crate::gen;
use crate::oracle::{judge, signature, witness, Complaint};
use crate::scn::*;
use crate::wire::{outcome_json, run_scn, Outcome};

const PROP: &str = "C06";
const ROUND_CAP: u64 = 60_000;

fn count_matrix(out: &mut ScenarioOut, o: &Outcome) {
    for p in &o.pkts {
        if p.loopback {
            continue;
        }
        out.count(&format!("fault_matrix.{}.{}", p.fate.class(), p.kind.as_str()), 1);
        if p.retx {
            out.count("retransmissions_on_wire", 1);
        }
    }
    out.count("packets_on_wire", o.pkts.iter().filter(|p| !p.loopback).count() as u64);
    out.count("packets_overtaken", o.overtakes);
    out.count("rounds", o.rounds);
}

/// Turn the first complaint of a failing explicit-schedule scenario into a
/// violation with a minimised witness.
fn report(out: &mut ScenarioOut, part: &str, scn: &Scn, c: &Complaint, minimise_it: bool) {
    // a complaint identified as a known defect keeps its scenario as it is:
    // its signature does not depend on the schedule
    let min = if minimise_it && !c.diagnosed && crate::oracle::minimise_ticket() {
        crate::oracle::minimise_with(
            scn,
            &|s| judge(s, &run_scn(s, ROUND_CAP)).complaints.iter().any(|x| x.class == c.class && !x.diagnosed),
            250,
        )
    } else {
        scn.clone()
    };
    let o = run_scn(&min, ROUND_CAP);
    let v = judge(&min, &o);
    let c2 = v
        .complaints
        .iter()
        .find(|x| x.class == c.class && x.diagnosed == c.diagnosed)
        .cloned()
        .unwrap_or_else(|| c.clone());
    let sig = signature(PROP, &c2, &min);
    out.violate(
        &c2.class,
        sig,
        format!("{} [{}]: {} — scenario {}", c2.class, c2.kind, c2.detail, min.canon()),
        witness(part, &min, &o, Some(scn)),
    );
}

fn explicit_of(scn: &Scn, o: &Outcome) -> Scn {
    let mut s = scn.clone();
    s.sched = Sched::Explicit(o.applied_faults());
    s
}

// ---------------------------------------------------------------- directed

/// Fixed scenarios: a fault-free baseline plus the schedules behind every
/// finding triaged so far (regression cases for `fixed`, reproducers for
/// `known` entries).
pub fn directed() -> Vec<(&'static str, Scn)> {
    let scn = |v: Value| Scn::from_json(&v).expect("directed scenario");
    vec![
        (
            "baseline",
            scn(json!({"cfg": {}, "c2s": {"total": 3000, "wchunks": [1000], "rbufs": [4096]},
                "s2c": {"total": 3000, "wchunks": [1000], "rbufs": [4096]}, "sched": {"explicit": []}})),
        ),
        // a lost pure ACK: the retransmitted segment must be re-ACKed
        (
            "lost-ack",
            scn(json!({"cfg": {}, "c2s": {"total": 10, "wchunks": [5], "rbufs": [4096], "write_pause": 25},
                "s2c": {"total": 0, "write_delay": 100}, "sched": {"explicit": ["s2c:ACK#0:drop"]}})),
        ),
        // a segment past a gap must be answered too (the duplicate ACK is what
        // tells the sender about a closed window after a reordering)
        (
            "zero-window-small-reads",
            scn(json!({"cfg": {"recv_cap": 8}, "c2s": {"total": 40, "wchunks": [40], "rbufs": [1]},
                "s2c": {"total": 0}, "sched": {"explicit": []}})),
        ),
        // lost handshake ACK, nothing to send from the client
        (
            "lost-handshake-ack",
            scn(json!({"cfg": {}, "c2s": {"total": 0, "write_delay": 100},
                "s2c": {"total": 100, "wchunks": [100], "rbufs": [4096]}, "sched": {"explicit": ["c2s:HSACK#0:drop"]}})),
        ),
        // the window update reopening a zero window is lost while the sender
        // has nothing in flight
        (
            "lost-window-update",
            scn(json!({"cfg": {"recv_cap": 8}, "c2s": {"total": 40, "wchunks": [8], "rbufs": [8], "read_pause": 4, "write_pause": 2},
                "s2c": {"total": 0}, "sched": {"explicit": ["s2c:WINUPD#0:drop"]}})),
        ),
        // last ACK of the FIN exchange lost while the LastAck side still has
        // unread data
        (
            "lost-last-ack",
            scn(json!({"cfg": {}, "c2s": {"total": 5, "wchunks": [5], "rbufs": [4096], "read_pause": 12},
                "s2c": {"total": 0, "rbufs": [16]}, "sched": {"explicit": ["c2s:ACK#0:drop"]}})),
        ),
        // ACKs of the original transmissions arrive after a go-back-N rewind
        // that could not re-emit (closed window)
        (
            "ack-after-rewind",
            scn(json!({"cfg": {"mtu": 140, "recv_cap": 100}, "c2s": {"total": 300, "wchunks": [300], "rbufs": [1]},
                "s2c": {"total": 0, "rbufs": [1]},
                "sched": {"explicit": ["s2c:ACK#0:hold2", "s2c:ACK#1:hold2", "s2c:ACK#2:hold2", "s2c:ACK#3:hold2",
                    "s2c:WINUPD#0:drop", "s2c:FIN#0:drop", "c2s:DATA#3:hold2", "c2s:DATA#4:hold1", "c2s:DATA#5:hold2",
                    "c2s:FIN#1:hold1", "s2c:FIN#1:hold2", "s2c:ACK#4:hold1", "s2c:ACK#5:hold1", "s2c:WINUPD#1:hold1"]}})),
        ),
        // retransmit attempts spent on the handshake must not count against
        // the first segment; data riding on the handshake-completing segment
        (
            "handshake-retx-budget",
            scn(json!({"cfg": {"send_cap": 1, "recv_cap": 1000}, "c2s": {"total": 5, "wchunks": [5], "rbufs": [1]},
                "s2c": {"total": 0, "rbufs": [1]},
                "sched": {"explicit": ["c2s:SYN#0:hold1", "c2s:HSACK#0:hold1", "s2c:ACK#0:drop", "c2s:DATA#2:drop",
                    "c2s:DATA#4:hold2", "s2c:WINUPD#0:drop"]}})),
        ),
        // the same lost last ACK while its sender's application still holds the
        // stream: the lingering Closed TCB has to re-ACK the retransmitted FIN
        (
            "lost-last-ack-stream-held",
            scn(json!({"cfg": {}, "c2s": {"total": 5, "wchunks": [5], "rbufs": [4096], "read_pause": 30},
                "s2c": {"total": 3, "wchunks": [3], "rbufs": [1], "read_pause": 14},
                "sched": {"explicit": ["c2s:ACK#1:drop"]}})),
        ),
        // the first data segment overtakes the handshake ACK and completes the
        // handshake itself: its payload counts as delivered
        (
            "data-completes-handshake",
            scn(json!({"cfg": {}, "c2s": {"total": 5, "wchunks": [5], "rbufs": [4096]},
                "s2c": {"total": 0, "write_delay": 100},
                "sched": {"explicit": ["c2s:HSACK#0:hold2", "c2s:DATA#1:drop", "c2s:DATA#2:drop", "c2s:DATA#3:drop",
                    "c2s:DATA#4:drop", "c2s:DATA#5:hold2", "s2c:ACK#0:hold2", "s2c:ACK#1:hold2"]}})),
        ),
        // pure reordering, nothing lost: every round's packets are delivered in
        // reverse emission order, so the zero-window ACK of a full 1-byte buffer
        // arrives after the window update (same ack number) that reopened it
        (
            "zero-window-ack-overtaken-by-update",
            scn(json!({"cfg": {"recv_cap": 1}, "c2s": {"total": 5, "wchunks": [5], "rbufs": [1]},
                "s2c": {"total": 0, "rbufs": [1]}, "order": "reverse", "sched": {"explicit": []}})),
        ),
        // data arrives at a host whose own send window is closed (its peer does
        // not read for 30 rounds) while it still has bytes queued: the ACK for
        // the arriving data must go out on its own, nothing can piggyback it
        (
            "ack-while-own-send-window-closed",
            scn(json!({"cfg": {"recv_cap": 100}, "c2s": {"total": 1000, "wchunks": [1000], "rbufs": [100], "read_pause": 30},
                "s2c": {"total": 40, "wchunks": [40], "rbufs": [4096], "write_delay": 6}, "sched": {"explicit": []}})),
        ),
        // receive buffer beyond the 16-bit window field: the reader lags until
        // the window closes, then drains with reads far below half the buffer
        (
            "big-recv-buffer-small-reads",
            scn(json!({"cfg": {"recv_cap": 131072}, "c2s": {"total": 171072, "wchunks": [171072], "rbufs": [4096], "read_pause": 2},
                "s2c": {"total": 0, "rbufs": [1], "write_delay": 2}, "sched": {"explicit": []}})),
        ),
        (
            "big-recv-buffer-jumbo-v6",
            scn(json!({"cfg": {"recv_cap": 262144, "send_cap": 262144, "mtu": 9000, "v6": true},
                "c2s": {"total": 5, "wchunks": [5], "rbufs": [100]},
                "s2c": {"total": 393216, "wchunks": [65536], "rbufs": [8192], "read_pause": 3}, "sched": {"explicit": []}})),
        ),
        // uniform link latency of 5 rounds (round trip 11 rounds) and one drop, the
        // handshake ACK: the server has spent SYN-ACK retransmits when the
        // client's first data segment completes the handshake; those attempts
        // must not count against the server's first data flight
        (
            "data-completes-handshake-after-synack-retx",
            scn(json!({"cfg": {}, "c2s": {"total": 100, "wchunks": [100], "rbufs": [4096]},
                "s2c": {"total": 100, "wchunks": [50], "rbufs": [4096], "write_pause": 8},
                "latency": 5, "sched": {"explicit": ["c2s:HSACK#0:drop"]}})),
        ),
    ]
}

fn run_directed(idx: u64) -> ScenarioOut {
    let list = directed();
    let (name, scn) = &list[idx as usize];
    let mut out = ScenarioOut::default();
    let o = run_scn(scn, ROUND_CAP);
    let v = judge(scn, &o);
    out.digest = o.digest();
    out.count("directed_scenarios", 1);
    count_matrix(&mut out, &o);
    out.nontrivial = (o.drops > 0 || o.overtakes > 0) && o.retx_seen > 0;
    out.sample = Some(json!({"part": "directed", "name": name, "scn": scn.to_json(), "outcome": outcome_json(&o, 30, 20)}));
    if let Some(c) = v.complaints.first() {
        // directed scenarios are reported as they are (no minimisation): their
        // signatures are the stable identities known_findings.json refers to
        report(&mut out, "directed", scn, c, false);
    } else if v.complete {
        out.count("completed_in_envelope", 1);
    }
    out
}

// ---------------------------------------------------------------- DFS

pub fn dfs_variants(ctx: &Ctx) -> Vec<DfsSpec> {
    // small MTU so that "one segment" is 100 bytes
    let cfg = Cfg { mtu: 140, ..Cfg::default() };
    let seg = cfg.mss();
    let mut v = vec![];
    let depth = ctx.pick(10, 14);
    let max_execs = ctx.pick(60_000, 4_000_000);
    let transfers: Vec<(usize, usize, u32)> = vec![
        // (c2s segments, s2c segments, delay of the side that writes nothing)
        (1, 0, 0),
        (0, 1, 0),
        (2, 0, 0),
        (1, 1, 0),
        (3, 0, 0),
        (0, 2, 30),
        (2, 1, 0),
        (1, 0, 30),
    ];
    for (a, b, delay) in transfers.iter() {
        for start in [0usize, 3, 7] {
            for small_window in [false, true] {
                if small_window && (a + b < 2 || start == 0) {
                    continue;
                }
                {
                    let mut c = cfg.clone();
                    if small_window {
                        c.recv_cap = seg;
                    }
                    let mk = |n: usize, delay: u32| DirSpec {
                        total: n * seg,
                        wchunks: vec![(n * seg).max(1)],
                        rbufs: vec![4096],
                        write_delay: if n == 0 { delay } else { 0 },
                        ..DirSpec::default()
                    };
                    v.push(DfsSpec {
                        scn: Scn {
                            cfg: c,
                            c2s: mk(*a, *delay),
                            s2c: mk(*b, *delay),
                            sched: Sched::Explicit(vec![]),
                            order: Order::Emission,
                            latency: 0,
                        },
                        start,
                        depth,
                        max_drops: 2,
                        holds: vec![1, 2],
                        max_execs,
                        deadline: Some(ctx.start + std::time::Duration::from_secs_f64(ctx.pick(40.0, 700.0))),
                    });
                }
            }
        }
    }
    // long-latency variants: a hold of 5 rounds each way makes the round trip
    // (11 rounds) several retransmit periods long, so handshake and data
    // retransmissions are already spent when the answers arrive; still inside
    // the envelope with up to 2 drops (oracle::max_hold_for)
    for (a, b) in [(1usize, 1usize), (1, 0), (0, 1), (2, 1)] {
        for start in [0usize, 2] {
            let mk = |n: usize| DirSpec {
                total: n * seg,
                wchunks: vec![(n * seg).max(1)],
                rbufs: vec![4096],
                ..DirSpec::default()
            };
            v.push(DfsSpec {
                scn: Scn {
                    cfg: cfg.clone(),
                    c2s: mk(a),
                    s2c: mk(b),
                    sched: Sched::Explicit(vec![]),
                    order: Order::Emission,
                    latency: 0,
                },
                start,
                depth: ctx.pick(9, 12),
                max_drops: 2,
                holds: vec![5],
                max_execs,
                deadline: Some(ctx.start + std::time::Duration::from_secs_f64(ctx.pick(40.0, 700.0))),
            });
        }
    }
    v
}

fn run_dfs(ctx: &Ctx, idx: u64) -> ScenarioOut {
    let specs = dfs_variants(ctx);
    let spec = &specs[idx as usize];
    let mut out = ScenarioOut::default();
    let st = explore(spec, &|scn, o| {
        let v = judge(scn, o);
        match v.complaints.first() {
            Some(c) => (true, c.diagnosed),
            None => (false, false),
        }
    });
    out.digest = st.digest;
    out.nontrivial = st.paths > 1;
    out.count("dfs_variants", 1);
    out.count("dfs_executions", st.execs);
    out.count("dfs_paths_completed", st.paths);
    out.count("dfs_executions_pruned_at_known_state", st.pruned);
    out.count("dfs_states", st.states);
    out.count("dfs_transitions", st.transitions);
    out.count("dfs_paths_ok", st.complete_ok);
    if st.truncated {
        out.count("dfs_variants_truncated_by_budget", 1);
    }
    for (k, n) in &st.matrix {
        let (f, kind) = k.split_once(':').unwrap();
        out.count(&format!("fault_matrix.{f}.{kind}"), *n);
    }
    out.saw("dfs_variant", format!("{} start={} depth={} holds={:?}", spec.scn.canon(), spec.start, spec.depth, spec.holds));
    out.sample = Some(json!({
        "part": "dfs",
        "scn": spec.scn.to_json(),
        "choice_window": [spec.start, spec.start + spec.depth],
        "max_drops": spec.max_drops, "holds": spec.holds,
        "executions": st.execs, "paths": st.paths, "states": st.states, "transitions": st.transitions,
        "truncated": st.truncated,
        "example_paths": st.sample_paths,
    }));
    // one violation per distinct complaint class found in this variant
    let mut seen = std::collections::BTreeSet::new();
    out.count("dfs_paths_hitting_known_finding", st.known_hits);
    for (scn, o, _) in &st.flagged {
        let v = judge(scn, o);
        if let Some(c) = v.complaints.first() {
            if seen.insert(format!("{}{}", c.class, c.diagnosed)) {
                report(&mut out, "dfs", scn, c, true);
            }
        }
    }
    out
}

// ---------------------------------------------------------------- walks

fn run_walk(ctx: &Ctx, idx: u64) -> ScenarioOut {
    let mut rng = Rng::new(ctx.scenario_seed("c06-walk", idx));
    let scn = gen::walk(&mut rng, gen::Flavor::C06);
    walk_out(&scn)
}

pub fn walk_out(scn: &Scn) -> ScenarioOut {
    let mut out = ScenarioOut::default();
    let o = run_scn(scn, ROUND_CAP);
    let v = judge(scn, &o);
    out.digest = o.digest();
    out.nontrivial = (o.drops > 0 || o.overtakes > 0) && o.retx_seen > 0;
    out.count("walks", 1);
    count_matrix(&mut out, &o);
    if v.in_envelope {
        out.count("walks_inside_envelope", 1);
        if v.complete {
            out.count("completed_in_envelope", 1);
        }
    } else {
        out.count("walks_outside_envelope", 1);
        let errs = o.hist.connect.as_ref().map(|r| r.is_err()).unwrap_or(false)
            || o.hist.dirs.iter().any(|d| d.write_err.is_some() || d.read_err.is_some());
        if errs {
            out.count("outside_envelope_surfaced_error", 1);
        } else if v.complete {
            out.count("outside_envelope_completed_anyway", 1);
        }
    }
    if let Some(u) = &v.undetermined {
        out.discarded = Some(format!("undetermined:{u}"));
    }
    for d in &o.hist.dirs {
        out.count("bytes_read_and_verified", d.read_off);
        out.count("read_calls", d.read_calls);
        out.count("peeks", d.peeks);
        if d.eof {
            out.count("eof_observed", 1);
        }
        out.count("partial_writes", d.partial_writes);
        out.count("parked_writes", d.parked_writes);
    }
    let spec_small_caps = scn.cfg.recv_cap < scn.cfg.mss() || scn.cfg.send_cap < scn.cfg.mss();
    if spec_small_caps {
        out.count("walks_with_cap_below_one_segment", 1);
    }
    if scn.c2s.total > 0 && scn.s2c.total > 0 {
        out.count("walks_both_directions", 1);
    }
    out.sample = Some(json!({"part": "walk", "scn": scn.to_json(), "applied_faults": o.applied_faults().iter().map(|f| f.canon()).collect::<Vec<_>>(),
        "outcome": outcome_json(&o, 25, 15)}));
    if let Some(c) = v.complaints.first() {
        if c.diagnosed {
            out.count(&format!("walks_hitting_known.{}", c.kind), 1);
        }
        let ex = explicit_of(scn, &o);
        // the explicit replay must reproduce the complaint; if it does not the
        // harness is at fault (kept visible as a harness error)
        let o2 = run_scn(&ex, ROUND_CAP);
        let v2 = judge(&ex, &o2);
        if v2.complaints.iter().any(|x| x.class == c.class) {
            report(&mut out, "walk", &ex, c, true);
        } else {
            panic!("explicit replay of a failing walk does not reproduce {}: {}", c.class, scn.canon());
        }
    }
    out
}

// ---------------------------------------------------------------- e2e

fn run_e2e(ctx: &Ctx, idx: u64) -> ScenarioOut {
    let mut rng = Rng::new(ctx.scenario_seed("c06-e2e", idx));
    let d = gen::e2e(&mut rng, idx);
    e2e_out(&d)
}

pub fn e2e_out(d: &E2e) -> ScenarioOut {
    let mut out = ScenarioOut::default();
    let o = match std::panic::catch_unwind(|| e2e::run(d)) {
        Ok(o) => o,
        Err(p) => {
            let msg = vcore::take_last_panic().unwrap_or_else(|| vcore::panic_message(&*p));
            if !msg.contains("turmoil-net") {
                std::panic::resume_unwind(p);
            }
            out.digest = vcore::digest_str(&d.canon());
            out.violate(
                "panic",
                format!("{PROP}|panic||{}", d.canon()),
                format!("turmoil-net panicked inside the fixture: {msg} — {}", d.canon()),
                json!({"part": "e2e", "e2e": d.to_json()}),
            );
            return out;
        }
    };
    let complaints = e2e::judge(d, &o);
    let mut h = vcore::Fnv::new();
    h.write_str(&d.canon());
    for e in &o.hist.events {
        h.write_str(e);
    }
    h.write_str(&format!("{:?}", o.stats.dropped));
    out.digest = h.finish();
    out.nontrivial = if d.fixture == "lo" {
        o.hist.dirs.iter().any(|x| x.read_off > 0)
    } else {
        o.stats.drops > 0 || !o.stats.delayed.is_empty()
    };
    out.count(&format!("e2e_{}_runs", d.fixture), 1);
    for (k, n) in &o.stats.dropped {
        out.count(&format!("e2e_rule_dropped.{k}"), *n);
    }
    for (k, n) in &o.stats.delayed {
        out.count(&format!("e2e_rule_delayed.{k}"), *n);
    }
    let env = crate::oracle::max_hold_for(&d.cfg, o.stats.drops).map(|m| o.stats.max_delay_ms <= m).unwrap_or(false);
    out.count(if env { "e2e_inside_envelope" } else { "e2e_outside_envelope" }, 1);
    for x in &o.hist.dirs {
        out.count("bytes_read_and_verified", x.read_off);
    }
    if complaints.is_empty() && env && !o.timed_out {
        out.count("completed_in_envelope", 1);
    }
    out.sample = Some(json!({"part": "e2e", "e2e": d.to_json(), "rule_dropped": format!("{:?}", o.stats.dropped),
        "rule_delayed": format!("{:?}", o.stats.delayed), "api": o.hist.events.iter().take(20).cloned().collect::<Vec<_>>() }));
    if let Some(c) = complaints.first() {
        out.violate(
            &c.class,
            if c.diagnosed { format!("{PROP}|{}|{}", c.class, c.kind) } else { format!("{PROP}|{}|{}|{}", c.class, c.kind, d.canon()) },
            format!("{} [{}]: {} — {}", c.class, c.kind, c.detail, d.canon()),
            json!({"part": "e2e", "e2e": d.to_json(), "api": o.hist.events, "rule_dropped": format!("{:?}", o.stats.dropped)}),
        );
    }
    out
}

// ---------------------------------------------------------------- entry

fn replay(ctx: &Ctx, w: Value) -> ! {
    let rep = vcore::run_single(ctx, move |_| {
        let part = w["part"].as_str().unwrap_or("");
        if part == "e2e" {
            let d = E2e::from_json(&w["e2e"]).expect("e2e descriptor");
            e2e_out(&d)
        } else {
            let scn = Scn::from_json(&w["scn"]).expect("scn descriptor");
            let mut out = ScenarioOut::default();
            let o = run_scn(&scn, ROUND_CAP);
            let v = judge(&scn, &o);
            out.digest = o.digest();
            out.nontrivial = true;
            for l in o.trace(200) {
                println!("# {l}");
            }
            for e in &o.hist.events {
                println!("# {e}");
            }
            if let Some(c) = v.complaints.first() {
                report(&mut out, part, &scn, c, false);
            }
            out
        }
    });
    vcore::finish(
        ctx,
        rep,
        Finish {
            level: "fault_enumeration",
            rule: "replay of one witness",
            assumptions: vec![],
            min_distinct: 0,
            required_counters: vec![],
        },
    )
}

pub fn run(ctx: &Ctx) -> ! {
    if let Some(w) = vcore::read_replay(ctx) {
        replay(ctx, w);
    }
    let n_dir = directed().len() as u64;
    let n_dfs = dfs_variants(ctx).len() as u64;
    let n_walk: u64 = ctx.pick(40_000, 1_200_000);
    let n_e2e: u64 = ctx.pick(6_000, 120_000);
    let total = n_dir + n_dfs + n_walk + n_e2e;
    let c2 = ctx.clone();
    let mut rep: Report = vcore::run_parallel(
        ctx,
        total,
        RunOpts {
            budget_s: ctx.pick(50.0, 780.0),
            scenario_timeout_s: ctx.pick(100.0, 850.0),
        },
        move |i| {
            // order: directed scenarios, a first block of fixture runs + walks,
            // the DFS variants (long poles, wall-clock guarded), then the rest
            // of the fixture runs and walks. A budget cut on a slow machine
            // thins out the generated parts alike and never skips one entirely.
            if i < n_dir {
                return run_directed(i);
            }
            let first_block = 3_000u64.min(n_walk + n_e2e);
            let j = if i < n_dir + first_block {
                i - n_dir
            } else if i < n_dir + first_block + n_dfs {
                return run_dfs(&c2, i - n_dir - first_block);
            } else {
                i - n_dir - n_dfs
            };
            let stride = ((n_walk + n_e2e) / n_e2e.max(1)).max(1);
            let e2e_before = (j / stride + 1).min(n_e2e); // e2e slots at j = 0, stride, 2*stride, ...
            if j % stride == 0 && j / stride < n_e2e {
                run_e2e(&c2, j / stride)
            } else {
                run_walk(&c2, j - e2e_before)
            }
        },
    );
    rep.max_samples = 6;
    let states = rep.counter("dfs_states");
    let transitions = rep.counter("dfs_transitions");
    rep.extra.insert("states".into(), json!(states));
    rep.extra.insert("transitions".into(), json!(transitions));
    rep.extra.insert("dfs_paths".into(), json!(rep.counter("dfs_paths_completed")));
    // matrix fault kind x packet kind
    let mut matrix = serde_json::Map::new();
    for f in ["now", "hold", "drop"] {
        let mut row = serde_json::Map::new();
        for k in TCP_KINDS {
            row.insert(k.as_str().to_string(), json!(rep.counter(&format!("fault_matrix.{f}.{}", k.as_str()))));
        }
        matrix.insert(f.to_string(), Value::Object(row));
    }
    rep.extra.insert("fault_kind_x_packet_kind".into(), Value::Object(matrix));
    let truncated = rep.counter("dfs_variants_truncated_by_budget");
    rep.exhaustive = Some(false);
    rep.extra.insert(
        "dfs_note".into(),
        json!(format!(
            "{} DFS variants, {} truncated by the per-variant execution budget; the DFS is exhaustive only up to its depth bound inside each untruncated variant",
            rep.counter("dfs_variants"),
            truncated
        )),
    );
    vcore::finish(
        ctx,
        rep,
        Finish {
            level: "fault_enumeration",
            rule: "directed schedules + re-execution DFS over per-packet fates {now, hold 1..2 rounds, drop<=2} on 1-3 segment transfers (states deduplicated by kernel-dump + history hash) + seeded random walks over sizes/MTUs/caps/pacing with drop/hold/reorder policies + fixture::lo / fixture::ClientServer runs with counting loss/latency rules; a case is non-trivial when a packet was dropped or overtaken AND a retransmission was seen on the wire (DFS variant: more than one complete path; fixture::lo: bytes transferred); distinct = distinct digest of packet trace + API trace",
            assumptions: vec![
                "liveness is claimed only inside the envelope: drops < retx_max, every hold < retx_threshold rounds (a round trip then stays below the abort horizon)".into(),
                "bounded liveness = completion within (retx_threshold*(retx_max+1)+d)*(segments+6) fault-free rounds after the last fault, or a provable fixpoint (nothing runnable, nothing in flight, no retransmission pending)".into(),
                "packet duplication is never injected; one connection per scenario".into(),
                "hook #2 (Debug dump) is used only to hash states in the DFS".into(),
            ],
            min_distinct: ctx.pick(4_000, 40_000),
            required_counters: vec![
                "dfs_states",
                "dfs_transitions",
                "dfs_paths_completed",
                "retransmissions_on_wire",
                "packets_overtaken",
                "fault_matrix.drop.ACK",
                "fault_matrix.drop.DATA",
                "fault_matrix.drop.SYN",
                "fault_matrix.drop.SYNACK",
                "fault_matrix.drop.HSACK",
                "fault_matrix.drop.FIN",
                "fault_matrix.hold.DATA",
                "fault_matrix.hold.ACK",
                "walks_with_cap_below_one_segment",
                "walks_both_directions",
                "walks_outside_envelope",
                "e2e_lo_runs",
                "e2e_cs_runs",
                "completed_in_envelope",
                "eof_observed",
            ],
        },
    )
}
