pub fn run(_ctx: &vcore::Ctx) -> ! { todo!() }
