pub mod c06;
pub mod c16;
pub mod probe;
