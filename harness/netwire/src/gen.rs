//! Seeded scenario generators (random walks, fixture runs).

use vcore::Rng;

use crate::e2e::E2e;
use crate::scn::*;

#[derive(Clone, Copy, PartialEq, Eq)]
pub enum Flavor {
    C06,
    /// cap / MTU focused, more loopback, API probing on
    C16,
}

fn sizes(rng: &mut Rng, mss: usize, n: usize) -> Vec<usize> {
    let menu = [
        1usize,
        7,
        100,
        mss.saturating_sub(1).max(1),
        mss.max(1),
        mss + 1,
        10_000,
    ];
    (0..n).map(|_| rng.pick_copy(&menu)).collect()
}

pub fn cfg(rng: &mut Rng, flavor: Flavor) -> Cfg {
    let v6 = rng.chance(0.3);
    let hdr: u32 = if v6 { 60 } else { 40 };
    let loopback = match flavor {
        Flavor::C06 => false,
        Flavor::C16 => rng.chance(0.35),
    };
    let mtu_menu = [hdr + 1, hdr + 2, hdr + 7, 100.max(hdr + 1), 576, 1500];
    let lo_menu = [hdr + 1, hdr + 21, 100.max(hdr + 1), 65536, 65536];
    let caps: &[usize] = match flavor {
        Flavor::C06 => &[1, 4, 8, 100, 1000, 65536, 65536],
        Flavor::C16 => &[1, 2, 7, 100, 4096, 65536],
    };
    Cfg {
        mtu: rng.pick_copy(&mtu_menu),
        loopback_mtu: rng.pick_copy(&lo_menu),
        send_cap: rng.pick_copy(caps),
        recv_cap: rng.pick_copy(caps),
        retx_threshold: 3,
        retx_max: 5,
        v6,
        loopback,
    }
}

fn dir(rng: &mut Rng, c: &Cfg, flavor: Flavor, budget_units: usize) -> DirSpec {
    let mss = c.mss().max(1);
    let unit = mss.min(c.send_cap).min(c.recv_cap).max(1);
    let totals = [0usize, 1, 5, 40, 300, 3000, 20_000, 65_536];
    let mut total = rng.pick_copy(&totals);
    // mostly prompt or slightly lagging readers; now and then one that does not
    // read for many rounds (the window stays closed while traffic continues)
    let mut read_pause = if rng.chance(0.3) { rng.pick_copy(&[1u32, 1, 1, 2, 2, 2, 5, 30]) } else { 0 };
    let nr = rng.range(1, 3) as usize;
    let rbufs = sizes(rng, mss, nr);
    let nw = rng.range(1, 3) as usize;
    let wchunks = sizes(rng, mss, nw);
    // keep the number of round trips bounded
    let mut eff_unit = unit;
    if read_pause > 0 {
        eff_unit = eff_unit.min(*rbufs.iter().min().unwrap());
    }
    while total / eff_unit.max(1) > budget_units / (1 + read_pause as usize) {
        total /= 4;
    }
    let minw = (*wchunks.iter().min().unwrap()).min(c.send_cap);
    let writes = total / minw.max(1);
    let write_pause = if writes <= 12 && rng.chance(0.25) {
        rng.pick_copy(&[1u32, 4, 25])
    } else {
        0
    };
    if total == 0 {
        read_pause = read_pause.min(1);
    }
    DirSpec {
        total,
        wchunks,
        rbufs,
        read_pause,
        peek_every: if rng.chance(0.2) { 3 } else { 0 },
        explicit_shutdown: rng.chance(0.8),
        try_write: match flavor {
            Flavor::C06 => rng.chance(0.2),
            Flavor::C16 => rng.chance(0.7),
        },
        write_delay: rng.pick_copy(&[0u32, 0, 0, 2, 7, 30]),
        write_pause,
    }
}

pub fn policy(rng: &mut Rng, c: &Cfg, flavor: Flavor) -> Policy {
    let seed = rng.next_u64();
    let roll = rng.below(100);
    let (inside_hi, none_hi, heavy_hi) = match flavor {
        Flavor::C06 => (62, 72, 88),
        Flavor::C16 => (70, 90, 96),
    };
    if c.loopback || roll >= inside_hi && roll < none_hi {
        return Policy {
            seed,
            p_drop: 0.0,
            p_hold: 0.0,
            d: 0,
            max_drops: 0,
            blackhole: None,
        };
    }
    if roll < inside_hi {
        // inside the envelope
        // the longest admissible hold depends on the drop budget (few drops
        // leave room for a long round trip, see oracle::max_hold_for)
        let max_drops = rng.range(0, (c.retx_max - 1) as u64) as u32;
        let dmax = crate::oracle::max_hold_for(c, max_drops).unwrap_or(0);
        let d = if rng.chance(0.5) { rng.range(0, dmax.min(2) as u64) } else { rng.range(0, dmax as u64) } as u32;
        Policy {
            seed,
            p_drop: rng.pick_copy(&[0.02, 0.05, 0.1, 0.2]),
            p_hold: rng.pick_copy(&[0.0, 0.1, 0.3, 0.5, 0.9]),
            d,
            max_drops,
            blackhole: None,
        }
    } else if roll < heavy_hi {
        // outside: heavy loss / long holds
        Policy {
            seed,
            p_drop: rng.pick_copy(&[0.2, 0.4, 0.7]),
            p_hold: rng.pick_copy(&[0.0, 0.3]),
            d: rng.range(0, 9) as u32,
            max_drops: 100_000,
            blackhole: None,
        }
    } else {
        let from = rng.range(2, 14);
        let len = rng.pick_copy(&[4u64, 25, 100_000]);
        Policy {
            seed,
            p_drop: 0.0,
            p_hold: rng.pick_copy(&[0.0, 0.2]),
            d: rng.range(0, 2) as u32,
            max_drops: 100_000,
            blackhole: Some((if rng.coin() { Dir::C2S } else { Dir::S2C }, from, from + len)),
        }
    }
}

/// Uniform link latency for a walk: a quarter of the in-envelope policies run
/// over a link where *every* packet takes the same 1..dmax rounds (dmax from
/// the policy's drop budget), like `Latency::fixed` in the fixtures.
fn latency_for(rng: &mut Rng, c: &Cfg, p: &Policy) -> u32 {
    if p.max_drops >= c.retx_max || p.blackhole.is_some() || c.loopback {
        return 0;
    }
    let dmax = crate::oracle::max_hold_for(c, p.max_drops).unwrap_or(0);
    if dmax == 0 || !rng.chance(0.25) {
        return 0;
    }
    rng.range(1, dmax as u64) as u32
}

/// Receive buffers beyond the 16-bit window field (>= 128 KiB): a transfer
/// larger than the buffer, a reader that lags until the window closes and then
/// drains with reads far below half the buffer.
fn big_buffer_walk(rng: &mut Rng, flavor: Flavor) -> Scn {
    let v6 = rng.chance(0.3);
    let recv_cap = rng.pick_copy(&[131_072usize, 131_073, 196_608, 262_144, 1 << 20]);
    let c = Cfg {
        mtu: rng.pick_copy(&[1500u32, 9000, 65_535]),
        loopback_mtu: 65_536,
        send_cap: rng.pick_copy(&[65_536usize, 262_144]),
        recv_cap,
        retx_threshold: 3,
        retx_max: 5,
        v6,
        loopback: flavor == Flavor::C16 && rng.chance(0.3),
    };
    let big_total = (recv_cap.min(262_144) + rng.pick_copy(&[1usize, 40_000, 131_072])).min(400_000);
    let small_read = rng.pick_copy(&[4096usize, 8192, 16_384, 60_000]);
    let big = DirSpec {
        total: big_total,
        wchunks: vec![rng.pick_copy(&[big_total, 65_536, 10_000])],
        rbufs: vec![small_read],
        read_pause: rng.range(1, 3) as u32,
        peek_every: 0,
        explicit_shutdown: rng.chance(0.8),
        try_write: rng.chance(0.3),
        write_delay: 0,
        write_pause: 0,
    };
    let small = dir(rng, &c, flavor, 60);
    let (c2s, s2c) = if rng.coin() { (big, small) } else { (small, big) };
    let p = policy(rng, &c, flavor);
    let latency = latency_for(rng, &c, &p);
    Scn {
        cfg: c,
        c2s,
        s2c,
        sched: Sched::Random(p),
        order: if rng.chance(0.8) { Order::Emission } else { Order::Shuffle(rng.next_u64() >> 16) },
        latency,
    }
}

pub fn walk(rng: &mut Rng, flavor: Flavor) -> Scn {
    if rng.below(25) == 0 {
        return big_buffer_walk(rng, flavor);
    }
    let c = cfg(rng, flavor);
    let budget = 240;
    let mut c2s = dir(rng, &c, flavor, budget);
    let mut s2c = dir(rng, &c, flavor, budget);
    // one-directional transfers are common in practice: keep a good share
    match rng.below(6) {
        0 => c2s.total = 0,
        1 => s2c.total = 0,
        _ => {}
    }
    let p = policy(rng, &c, flavor);
    let order = match rng.below(10) {
        0 => Order::Reverse,
        1..=3 => Order::Shuffle(rng.next_u64() >> 16),
        _ => Order::Emission,
    };
    let latency = latency_for(rng, &c, &p);
    Scn {
        cfg: c,
        c2s,
        s2c,
        sched: Sched::Random(p),
        order,
        latency,
    }
}

pub fn e2e(rng: &mut Rng, idx: u64) -> E2e {
    let lo = idx % 3 == 0;
    let mut c = cfg(rng, Flavor::C06);
    c.loopback = lo;
    let mut c2s = dir(rng, &c, Flavor::C06, 200);
    let mut s2c = dir(rng, &c, Flavor::C06, 200);
    for d in [&mut c2s, &mut s2c] {
        // the fixtures own the clock: no round-paced programs here
        d.read_pause = 0;
        d.write_delay = 0;
        d.write_pause = 0;
        d.try_write = false;
    }
    let inside = rng.chance(0.75);
    let e_drops = if inside { rng.range(0, (c.retx_max - 1) as u64) as u32 } else { 100_000 };
    let e_dmax = crate::oracle::max_hold_for(&c, e_drops.min(c.retx_max)).unwrap_or(0);
    E2e {
        fixture: if lo { "lo".into() } else { "cs".into() },
        cfg: c.clone(),
        c2s,
        s2c,
        seed: rng.next_u64() >> 8,
        p_drop: if lo { 0.0 } else { rng.pick_copy(&[0.0, 0.03, 0.1, 0.3]) },
        max_drops: e_drops,
        p_delay: if lo { 0.0 } else { rng.pick_copy(&[0.0, 0.2, 0.5]) },
        d_ms: if inside { rng.range(0, e_dmax as u64) as u32 } else { rng.range(0, 9) as u32 },
    }
}
