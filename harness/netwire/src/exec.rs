//! Minimal deterministic executor for the wire driver.
//!
//! Tasks are polled only when their waker fired (strict: a lost wake-up in the
//! code under test shows up as a task that never runs again), in task-index
//! order, each poll scoped to the task's host (`turmoil_net::set_current`).
//! Futures are dropped inside the same host scope, because dropping a shim
//! socket issues a syscall against the *current* host.

use std::cell::{Cell, RefCell};
use std::future::Future;
use std::pin::Pin;
use std::rc::Rc;
use std::sync::atomic::{AtomicBool, Ordering};
use std::sync::Arc;
use std::task::{Context, Poll, Wake, Waker};

use turmoil_net::HostId;

pub struct Flag(AtomicBool);
impl Wake for Flag {
    fn wake(self: Arc<Self>) {
        self.0.store(true, Ordering::SeqCst);
    }
    fn wake_by_ref(self: &Arc<Self>) {
        self.0.store(true, Ordering::SeqCst);
    }
}

type BoxFut = Pin<Box<dyn Future<Output = ()>>>;

struct Task {
    name: String,
    host: HostId,
    fut: Option<BoxFut>,
    flag: Arc<Flag>,
}

#[derive(Clone, Default)]
pub struct Spawner {
    q: Rc<RefCell<Vec<(String, HostId, BoxFut)>>>,
}

impl Spawner {
    pub fn spawn(&self, name: &str, host: HostId, fut: impl Future<Output = ()> + 'static) {
        self.q.borrow_mut().push((name.to_string(), host, Box::pin(fut)));
    }
}

#[derive(Default)]
pub struct Exec {
    tasks: Vec<Task>,
    pub spawner: Spawner,
    pub polls: u64,
}

impl Exec {
    fn absorb(&mut self) -> bool {
        let mut q = self.spawner.q.borrow_mut();
        let any = !q.is_empty();
        for (name, host, fut) in q.drain(..) {
            self.tasks.push(Task {
                name,
                host,
                fut: Some(fut),
                flag: Arc::new(Flag(AtomicBool::new(true))),
            });
        }
        any
    }

    /// Poll woken tasks until none is runnable. Returns the number of polls.
    pub fn run_until_stalled(&mut self) -> u64 {
        let mut n = 0;
        loop {
            let mut any = self.absorb();
            for i in 0..self.tasks.len() {
                let t = &mut self.tasks[i];
                if t.fut.is_none() || !t.flag.0.swap(false, Ordering::SeqCst) {
                    continue;
                }
                any = true;
                n += 1;
                turmoil_net::set_current(t.host);
                let waker = Waker::from(t.flag.clone());
                let mut cx = Context::from_waker(&waker);
                let done = matches!(t.fut.as_mut().unwrap().as_mut().poll(&mut cx), Poll::Ready(()));
                if done {
                    // drop inside the host scope
                    t.fut = None;
                }
            }
            if !any {
                break;
            }
        }
        self.polls += n;
        n
    }

    pub fn pending(&self) -> Vec<String> {
        self.tasks
            .iter()
            .filter(|t| t.fut.is_some())
            .map(|t| t.name.clone())
            .collect()
    }

    /// Drop every remaining future inside its host scope.
    pub fn drop_all(&mut self) {
        self.absorb();
        for t in self.tasks.iter_mut() {
            if t.fut.is_some() {
                turmoil_net::set_current(t.host);
                t.fut = None;
            }
        }
    }
}

/// Round clock shared between the driver and tasks that pace themselves in
/// rounds (slow readers).
#[derive(Default)]
pub struct RoundClock {
    pub round: Cell<u64>,
    wakers: RefCell<Vec<Waker>>,
}

impl RoundClock {
    pub fn advance(&self) {
        self.round.set(self.round.get() + 1);
        for w in self.wakers.borrow_mut().drain(..) {
            w.wake();
        }
    }
}

pub struct UntilRound {
    pub clock: Rc<RoundClock>,
    pub target: u64,
}

impl Future for UntilRound {
    type Output = ();
    fn poll(self: Pin<&mut Self>, cx: &mut Context<'_>) -> Poll<()> {
        if self.clock.round.get() >= self.target {
            Poll::Ready(())
        } else {
            self.clock.wakers.borrow_mut().push(cx.waker().clone());
            Poll::Pending
        }
    }
}

pub fn wait_rounds(clock: &Rc<RoundClock>, n: u64) -> UntilRound {
    UntilRound {
        clock: clock.clone(),
        target: clock.round.get() + n,
    }
}
