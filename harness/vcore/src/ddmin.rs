//! Delta debugging (ddmin) over a list of items.

/// Minimise `items` such that `fails(subset)` stays true. `fails(items)` must
/// be true on entry. `budget` caps the number of test invocations.
pub fn ddmin<T: Clone>(items: Vec<T>, mut fails: impl FnMut(&[T]) -> bool, budget: usize) -> Vec<T> {
    let mut cur = items;
    let mut n = 2usize;
    let mut calls = 0usize;
    while cur.len() >= 2 && calls < budget {
        let chunk = cur.len().div_ceil(n);
        let mut reduced = false;
        // try removing each chunk (complement test)
        let mut i = 0;
        while i < cur.len() && calls < budget {
            let mut cand = Vec::with_capacity(cur.len());
            cand.extend_from_slice(&cur[..i]);
            cand.extend_from_slice(&cur[(i + chunk).min(cur.len())..]);
            calls += 1;
            if !cand.is_empty() && cand.len() < cur.len() && fails(&cand) {
                cur = cand;
                n = n.saturating_sub(1).max(2);
                reduced = true;
                break;
            }
            i += chunk;
        }
        if !reduced {
            if n >= cur.len() {
                break;
            }
            n = (n * 2).min(cur.len());
        }
    }
    // final single-element removal pass
    let mut i = 0;
    while i < cur.len() && cur.len() > 1 && calls < budget {
        let mut cand = cur.clone();
        cand.remove(i);
        calls += 1;
        if fails(&cand) {
            cur = cand;
        } else {
            i += 1;
        }
    }
    cur
}
