//! Shared plumbing for the turmoil runtime-monitoring harness: deterministic
//! PRNG, scenario runner (16 workers, one fresh OS thread per scenario, wall
//! clock watchdog), violation / known-finding bookkeeping, evidence writer,
//! delta-debugging shrinker.
//!
//! Verdicts are three-valued: exit 0 (held on everything explored, possibly
//! with KNOWN-FINDING lines), exit 1 (VIOLATION line, replay file written),
//! exit 2 (INCONCLUSIVE: harness error, watchdog or coverage below minimum).

use serde_json::{json, Map, Value};
use std::collections::{BTreeMap, BTreeSet};
use std::path::PathBuf;
use std::sync::atomic::{AtomicU64, AtomicUsize, Ordering};
use std::sync::{mpsc, Arc, Mutex};
use std::time::{Duration, Instant};

pub mod ddmin;
pub mod rng;
pub use rng::Rng;

#[derive(Clone, Copy, PartialEq, Eq, Debug)]
pub enum Tier {
    Quick,
    Thorough,
}

impl Tier {
    pub fn as_str(&self) -> &'static str {
        match self {
            Tier::Quick => "quick",
            Tier::Thorough => "thorough",
        }
    }
}

#[derive(Clone)]
pub struct Ctx {
    pub prop: String,
    pub tier: Tier,
    pub seed: u64,
    pub replay: Option<PathBuf>,
    pub verif_dir: PathBuf,
    pub start: Instant,
    pub threads: usize,
    /// extra free-form args after the known ones
    pub rest: Vec<String>,
}

impl Ctx {
    /// Parse `<PROP> [--tier quick|thorough] [--replay file] [--threads n] [rest..]`.
    /// Env: VERIF_SEED, VERIF_TIER, VERIF_DIR.
    pub fn from_args(args: &[String]) -> Ctx {
        let mut prop = String::new();
        let mut tier = match std::env::var("VERIF_TIER").ok().as_deref() {
            Some("thorough") => Tier::Thorough,
            _ => Tier::Quick,
        };
        let mut replay = None;
        let mut threads = std::thread::available_parallelism()
            .map(|n| n.get())
            .unwrap_or(8)
            .min(16);
        let mut rest = vec![];
        let mut i = 0;
        while i < args.len() {
            match args[i].as_str() {
                "--tier" => {
                    i += 1;
                    tier = match args.get(i).map(|s| s.as_str()) {
                        Some("thorough") => Tier::Thorough,
                        _ => Tier::Quick,
                    };
                }
                "--replay" => {
                    i += 1;
                    replay = args.get(i).map(PathBuf::from);
                }
                "--threads" => {
                    i += 1;
                    threads = args.get(i).and_then(|s| s.parse().ok()).unwrap_or(threads);
                }
                a if prop.is_empty() && !a.starts_with("--") => prop = a.to_string(),
                a => rest.push(a.to_string()),
            }
            i += 1;
        }
        let seed = std::env::var("VERIF_SEED")
            .ok()
            .and_then(|s| s.trim().parse::<i64>().ok())
            .unwrap_or(0) as u64;
        let verif_dir = std::env::var("VERIF_DIR")
            .map(PathBuf::from)
            .unwrap_or_else(|_| PathBuf::from("/verif"));
        Ctx {
            prop,
            tier,
            seed,
            replay,
            verif_dir,
            start: Instant::now(),
            threads,
            rest,
        }
    }

    pub fn quick(&self) -> bool {
        self.tier == Tier::Quick
    }

    /// Value for quick vs thorough tier.
    pub fn pick<T>(&self, quick: T, thorough: T) -> T {
        if self.quick() {
            quick
        } else {
            thorough
        }
    }

    /// Seed for scenario `idx` of sub-space `space` (a stable label).
    pub fn scenario_seed(&self, space: &str, idx: u64) -> u64 {
        let mut h = Fnv::new();
        h.write_str(&self.prop);
        h.write_str(space);
        h.write_u64(self.seed);
        h.write_u64(idx);
        rng::mix(h.finish())
    }

    pub fn elapsed_s(&self) -> f64 {
        self.start.elapsed().as_secs_f64()
    }
}

/// FNV-1a 64 bit, used for digests (stable across runs/processes).
#[derive(Clone)]
pub struct Fnv(u64);
impl Default for Fnv {
    fn default() -> Self {
        Self::new()
    }
}
impl Fnv {
    pub fn new() -> Self {
        Fnv(0xcbf29ce484222325)
    }
    pub fn write(&mut self, bytes: &[u8]) {
        for b in bytes {
            self.0 ^= *b as u64;
            self.0 = self.0.wrapping_mul(0x100000001b3);
        }
    }
    pub fn write_str(&mut self, s: &str) {
        self.write(s.as_bytes());
        self.write(&[0xff]);
    }
    pub fn write_u64(&mut self, v: u64) {
        self.write(&v.to_le_bytes());
    }
    pub fn finish(&self) -> u64 {
        self.0
    }
}

pub fn digest_str(s: &str) -> u64 {
    let mut h = Fnv::new();
    h.write_str(s);
    h.finish()
}

pub fn digest_json(v: &Value) -> u64 {
    digest_str(&v.to_string())
}

/// One oracle complaint.
#[derive(Clone, Debug)]
pub struct Violation {
    /// Oracle complaint class, e.g. "eof-missing".
    pub class: String,
    /// Canonical, stable identity of this failing case (class + canonical
    /// minimised input / call site). Compared verbatim with known_findings.json.
    pub signature: String,
    /// One-line human description.
    pub what: String,
    /// Everything needed to replay: scenario descriptor + excerpt of the log.
    pub witness: Value,
}

/// Result of one scenario.
#[derive(Default)]
pub struct ScenarioOut {
    /// Digest of what was actually observed (trace / history), for counting
    /// distinct cases.
    pub digest: u64,
    /// Met the property's non-triviality rule.
    pub nontrivial: bool,
    /// Descriptor + excerpt suitable as an evidence sample.
    pub sample: Option<Value>,
    /// Observation counters, summed over scenarios.
    pub counters: Vec<(String, u64)>,
    /// Set-valued observations (e.g. state pairs seen), unioned over scenarios.
    pub seen: Vec<(String, String)>,
    pub violations: Vec<Violation>,
    /// Scenario discarded (documented panic, undetermined), with reason.
    pub discarded: Option<String>,
}

impl ScenarioOut {
    pub fn count(&mut self, key: &str, n: u64) {
        if let Some(e) = self.counters.iter_mut().find(|(k, _)| k == key) {
            e.1 += n;
        } else {
            self.counters.push((key.to_string(), n));
        }
    }
    pub fn saw(&mut self, set: &str, item: impl Into<String>) {
        self.seen.push((set.to_string(), item.into()));
    }
    pub fn violate(&mut self, class: &str, signature: String, what: String, witness: Value) {
        self.violations.push(Violation {
            class: class.to_string(),
            signature,
            what,
            witness,
        });
    }
}

/// Aggregated result of a check run.
pub struct Report {
    pub evaluations: u64,
    pub distinct: BTreeSet<u64>,
    pub samples: Vec<Value>,
    pub counters: BTreeMap<String, u64>,
    pub seen: BTreeMap<String, BTreeSet<String>>,
    pub violations: BTreeMap<String, Violation>,
    pub violation_count: u64,
    pub discarded: BTreeMap<String, u64>,
    pub harness_errors: Vec<String>,
    pub hung: u64,
    pub budget_exhausted: bool,
    pub exhaustive: Option<bool>,
    pub extra: Map<String, Value>,
    pub max_samples: usize,
}

impl Default for Report {
    fn default() -> Self {
        Report {
            evaluations: 0,
            distinct: BTreeSet::new(),
            samples: vec![],
            counters: BTreeMap::new(),
            seen: BTreeMap::new(),
            violations: BTreeMap::new(),
            violation_count: 0,
            discarded: BTreeMap::new(),
            harness_errors: vec![],
            hung: 0,
            budget_exhausted: false,
            exhaustive: None,
            extra: Map::new(),
            max_samples: 4,
        }
    }
}

impl Report {
    pub fn absorb(&mut self, out: ScenarioOut) {
        self.evaluations += 1;
        if let Some(r) = out.discarded {
            *self.discarded.entry(r).or_default() += 1;
        }
        if out.nontrivial {
            let fresh = self.distinct.insert(out.digest);
            if fresh && self.samples.len() < self.max_samples {
                if let Some(s) = out.sample {
                    self.samples.push(s);
                }
            }
        }
        for (k, n) in out.counters {
            *self.counters.entry(k).or_default() += n;
        }
        for (k, v) in out.seen {
            self.seen.entry(k).or_default().insert(v);
        }
        for v in out.violations {
            self.violation_count += 1;
            self.violations.entry(v.signature.clone()).or_insert(v);
        }
    }

    pub fn merge(&mut self, other: Report) {
        self.evaluations += other.evaluations;
        self.distinct.extend(other.distinct);
        for s in other.samples {
            if self.samples.len() < self.max_samples + 4 {
                self.samples.push(s);
            }
        }
        for (k, n) in other.counters {
            *self.counters.entry(k).or_default() += n;
        }
        for (k, v) in other.seen {
            self.seen.entry(k).or_default().extend(v);
        }
        for (k, v) in other.violations {
            self.violations.entry(k).or_insert(v);
        }
        self.violation_count += other.violation_count;
        for (k, n) in other.discarded {
            *self.discarded.entry(k).or_default() += n;
        }
        self.harness_errors.extend(other.harness_errors);
        self.hung += other.hung;
        self.budget_exhausted |= other.budget_exhausted;
        for (k, v) in other.extra {
            self.extra.insert(k, v);
        }
    }

    pub fn counter(&self, k: &str) -> u64 {
        self.counters.get(k).copied().unwrap_or(0)
    }
}

pub struct Finish<'a> {
    pub level: &'a str,
    pub rule: &'a str,
    pub assumptions: Vec<String>,
    /// Minimum number of distinct non-trivial cases below which the run is
    /// inconclusive (never "held").
    pub min_distinct: u64,
    /// Counters that must be non-zero for the run to count as having observed
    /// the property's interesting events.
    pub required_counters: Vec<&'a str>,
}

#[derive(Clone, Debug)]
pub struct KnownFinding {
    pub property: String,
    pub status: String,
    pub signature: String,
    pub what: String,
}

pub fn load_known(ctx: &Ctx) -> Vec<KnownFinding> {
    let p = ctx.verif_dir.join("known_findings.json");
    let Ok(txt) = std::fs::read_to_string(&p) else {
        return vec![];
    };
    let Ok(v) = serde_json::from_str::<Value>(&txt) else {
        eprintln!("warning: {p:?} is not valid JSON; treating as empty");
        return vec![];
    };
    let mut out = vec![];
    if let Some(arr) = v.get("findings").and_then(|f| f.as_array()) {
        for f in arr {
            out.push(KnownFinding {
                property: f["property"].as_str().unwrap_or("").to_string(),
                status: f["status"].as_str().unwrap_or("").to_string(),
                signature: f["signature"].as_str().unwrap_or("").to_string(),
                what: f["what"].as_str().unwrap_or("").to_string(),
            });
        }
    }
    out
}

/// Write evidence, print verdict lines, and exit the process.
pub fn finish(ctx: &Ctx, report: Report, fin: Finish) -> ! {
    let code = finish_noexit(ctx, report, fin);
    std::process::exit(code)
}

pub fn finish_noexit(ctx: &Ctx, report: Report, fin: Finish) -> i32 {
    let known = load_known(ctx);
    let mut new_violations: Vec<&Violation> = vec![];
    let mut known_hits: Vec<(&Violation, &KnownFinding)> = vec![];
    for v in report.violations.values() {
        match known
            .iter()
            .find(|k| k.property == ctx.prop && k.status == "known" && k.signature == v.signature)
        {
            Some(k) => known_hits.push((v, k)),
            None => new_violations.push(v),
        }
    }

    // Evidence
    let mut coverage = Map::new();
    coverage.insert("evaluations".into(), json!(report.evaluations));
    coverage.insert("distinct_nontrivial".into(), json!(report.distinct.len()));
    coverage.insert("rule".into(), json!(fin.rule));
    let mut samples = report.samples.clone();
    for v in new_violations.iter().take(3) {
        samples.push(json!({"violation": v.class, "what": v.what, "witness": v.witness}));
    }
    coverage.insert("samples".into(), Value::Array(samples));
    if let Some(e) = report.exhaustive {
        coverage.insert("exhaustive".into(), json!(e));
    }
    coverage.insert(
        "observed".into(),
        Value::Object(
            report
                .counters
                .iter()
                .map(|(k, v)| (k.clone(), json!(v)))
                .collect(),
        ),
    );
    if !report.seen.is_empty() {
        coverage.insert(
            "distinct_observations".into(),
            Value::Object(
                report
                    .seen
                    .iter()
                    .map(|(k, v)| {
                        let items: Vec<&String> = v.iter().take(200).collect();
                        (k.clone(), json!({"count": v.len(), "items": items}))
                    })
                    .collect(),
            ),
        );
    }
    if !report.discarded.is_empty() {
        coverage.insert(
            "discarded_or_skipped".into(),
            Value::Object(
                report
                    .discarded
                    .iter()
                    .map(|(k, v)| (k.clone(), json!(v)))
                    .collect(),
            ),
        );
    }
    coverage.insert("budget_exhausted".into(), json!(report.budget_exhausted));
    coverage.insert("harness_errors".into(), json!(report.harness_errors.len()));
    coverage.insert("hung_scenarios".into(), json!(report.hung));
    coverage.insert(
        "known_findings_observed".into(),
        json!(known_hits
            .iter()
            .map(|(v, _)| v.signature.clone())
            .collect::<Vec<_>>()),
    );
    for (k, v) in report.extra.iter() {
        coverage.insert(k.clone(), v.clone());
    }
    let evidence = json!({
        "property_id": ctx.prop,
        "tier": ctx.tier.as_str(),
        "seed": ctx.seed as i64,
        "level": fin.level,
        "coverage": Value::Object(coverage),
        "assumptions": fin.assumptions,
        "wall_s": (ctx.elapsed_s() * 100.0).round() / 100.0,
        "violations": new_violations.len(),
    });
    let evdir = ctx.verif_dir.join("evidence");
    let _ = std::fs::create_dir_all(&evdir);
    let evpath = evdir.join(format!("{}.json", ctx.prop));
    if ctx.replay.is_none() {
        if let Err(e) = std::fs::write(&evpath, serde_json::to_string_pretty(&evidence).unwrap()) {
            println!("INCONCLUSIVE property={} cannot write evidence: {e}", ctx.prop);
            return 2;
        }
    }

    for (v, k) in &known_hits {
        println!(
            "KNOWN-FINDING: property={} {} [{}]",
            ctx.prop,
            k.what,
            v.signature
        );
    }

    if !new_violations.is_empty() {
        let rdir = ctx.verif_dir.join("replays");
        let _ = std::fs::create_dir_all(&rdir);
        for v in &new_violations {
            let path = rdir.join(format!(
                "{}-{:016x}.json",
                ctx.prop,
                digest_str(&v.signature)
            ));
            let body = json!({
                "property": ctx.prop,
                "class": v.class,
                "signature": v.signature,
                "what": v.what,
                "seed": ctx.seed as i64,
                "tier": ctx.tier.as_str(),
                "witness": v.witness,
            });
            let _ = std::fs::write(&path, serde_json::to_string_pretty(&body).unwrap());
            println!("# {}: {}", v.class, v.what);
            println!(
                "VIOLATION property={} replay={}",
                ctx.prop,
                path.display()
            );
        }
        return 1;
    }

    if !report.harness_errors.is_empty() || report.hung > 0 {
        for e in report.harness_errors.iter().take(5) {
            println!("# harness error: {e}");
        }
        println!(
            "INCONCLUSIVE property={} harness_errors={} hung={}",
            ctx.prop,
            report.harness_errors.len(),
            report.hung
        );
        return 2;
    }
    if ctx.replay.is_none() {
        if (report.distinct.len() as u64) < fin.min_distinct.max(2) {
            println!(
                "INCONCLUSIVE property={} distinct_nontrivial={} below minimum {}",
                ctx.prop,
                report.distinct.len(),
                fin.min_distinct.max(2)
            );
            return 2;
        }
        for c in &fin.required_counters {
            if report.counter(c) == 0 {
                println!(
                    "INCONCLUSIVE property={} required observation '{}' never made",
                    ctx.prop, c
                );
                return 2;
            }
        }
    }
    println!(
        "OK property={} tier={} seed={} evaluations={} distinct_nontrivial={} wall_s={:.1}",
        ctx.prop,
        ctx.tier.as_str(),
        ctx.seed,
        report.evaluations,
        report.distinct.len(),
        ctx.elapsed_s()
    );
    0
}

thread_local! {
    static LAST_PANIC: std::cell::RefCell<Option<String>> = const { std::cell::RefCell::new(None) };
}

/// Install a panic hook that records the message (thread-local) instead of
/// printing; scenario code panics are harvested by the runner.
pub fn install_quiet_panic_hook() {
    std::panic::set_hook(Box::new(|info| {
        let msg = if let Some(s) = info.payload().downcast_ref::<&str>() {
            s.to_string()
        } else if let Some(s) = info.payload().downcast_ref::<String>() {
            s.clone()
        } else {
            "<non-string panic>".to_string()
        };
        let loc = info
            .location()
            .map(|l| format!("{}:{}", l.file(), l.line()))
            .unwrap_or_default();
        // keep the whole chain: the root cause is the first message, runtimes
        // often re-panic with a generic one afterwards
        LAST_PANIC.with(|p| {
            let mut p = p.borrow_mut();
            let cur = format!("{msg} @ {loc}");
            *p = Some(match p.take() {
                Some(prev) if prev.len() < 2000 => format!("{prev} <- {cur}"),
                Some(prev) => prev,
                None => cur,
            });
        });
        if std::env::var("VERIF_PANIC_TRACE").is_ok() {
            eprintln!("panic: {msg} @ {loc}");
        }
    }));
}

pub fn take_last_panic() -> Option<String> {
    LAST_PANIC.with(|p| p.borrow_mut().take())
}

/// Extract a printable message from a panic payload.
pub fn panic_message(p: &(dyn std::any::Any + Send)) -> String {
    if let Some(s) = p.downcast_ref::<&str>() {
        s.to_string()
    } else if let Some(s) = p.downcast_ref::<String>() {
        s.clone()
    } else {
        "<non-string panic>".to_string()
    }
}

pub struct RunOpts {
    /// wall-clock budget (seconds) after which no new scenario is dispatched
    pub budget_s: f64,
    /// wall-clock watchdog per scenario (seconds); firing = inconclusive
    pub scenario_timeout_s: f64,
}

impl Default for RunOpts {
    fn default() -> Self {
        RunOpts {
            budget_s: 600.0,
            scenario_timeout_s: 120.0,
        }
    }
}

/// Run scenarios `0..n` on `ctx.threads` workers. Each scenario runs on its own
/// fresh OS thread (thread-locals of the code under test cannot leak between
/// scenarios). A panic escaping `f` is a harness error (inconclusive), never a
/// violation.
/// Bijection on 0..n used as dispatch order by `run_parallel`.
pub fn dispatch_index(k: u64, n: u64) -> u64 {
    const HEAD: u64 = 512;
    if n <= HEAD || k < HEAD {
        return k;
    }
    let m = n - HEAD;
    // a stride coprime to m
    let mut p: u64 = 1_000_003;
    while gcd(p, m) != 1 {
        p += 2;
    }
    HEAD + (((k - HEAD) as u128 * p as u128) % m as u128) as u64
}

fn gcd(a: u64, b: u64) -> u64 {
    if b == 0 {
        a
    } else {
        gcd(b, a % b)
    }
}

pub fn run_parallel<F>(ctx: &Ctx, n: u64, opts: RunOpts, f: F) -> Report
where
    F: Fn(u64) -> ScenarioOut + Send + Sync + 'static,
{
    let f = Arc::new(f);
    let next = Arc::new(AtomicU64::new(0));
    let report = Arc::new(Mutex::new(Report::default()));
    let stop = Arc::new(AtomicUsize::new(0));
    let t0 = Instant::now();
    let quick = ctx.quick();
    let mut workers = vec![];
    for _ in 0..ctx.threads.max(1) {
        let f = f.clone();
        let next = next.clone();
        let report = report.clone();
        let stop = stop.clone();
        // quick tier: the budget is a safety net for slow machines, not a target (a normal quick run
        // finishes well inside it); a generous net keeps a throttled machine from starving the
        // required observations
        let budget = if quick { opts.budget_s * 4.0 } else { opts.budget_s };
        let timeout = opts.scenario_timeout_s;
        workers.push(std::thread::spawn(move || loop {
            if stop.load(Ordering::Relaxed) != 0 {
                break;
            }
            let k = next.fetch_add(1, Ordering::Relaxed);
            if k >= n {
                break;
            }
            // Dispatch order: the first indices in natural order (directed scenarios live there),
            // the rest in a stride permutation, so that a run cut short by its time budget (slow
            // machine) has sampled every family of scenarios, wherever it sits in the index range.
            let idx = dispatch_index(k, n);
            if t0.elapsed().as_secs_f64() > budget {
                report.lock().unwrap().budget_exhausted = true;
                break;
            }
            let (tx, rx) = mpsc::channel();
            let f2 = f.clone();
            let builder = std::thread::Builder::new()
                .name(format!("scn-{idx}"))
                .stack_size(16 << 20);
            let handle = builder.spawn(move || {
                let r = std::panic::catch_unwind(std::panic::AssertUnwindSafe(|| f2(idx)));
                let r = r.map_err(|p| {
                    let m = panic_message(&*p);
                    take_last_panic().unwrap_or(m)
                });
                let _ = tx.send(r);
            });
            let Ok(handle) = handle else {
                report
                    .lock()
                    .unwrap()
                    .harness_errors
                    .push(format!("scenario {idx}: cannot spawn thread"));
                break;
            };
            match rx.recv_timeout(Duration::from_secs_f64(timeout)) {
                Ok(Ok(out)) => {
                    let _ = handle.join();
                    report.lock().unwrap().absorb(out);
                }
                Ok(Err(msg)) => {
                    let _ = handle.join();
                    let mut r = report.lock().unwrap();
                    r.evaluations += 1;
                    r.harness_errors.push(format!("scenario {idx}: panic: {msg}"));
                }
                Err(_) => {
                    // hung: leave the thread detached; verdict is inconclusive
                    let mut r = report.lock().unwrap();
                    r.evaluations += 1;
                    r.hung += 1;
                    r.harness_errors
                        .push(format!("scenario {idx}: watchdog after {timeout}s"));
                }
            }
        }));
    }
    for w in workers {
        let _ = w.join();
    }
    let mut guard = report.lock().unwrap();
    std::mem::take(&mut *guard)
}

/// Run one closure under the same isolation/watchdog (used for replay).
pub fn run_single<F>(ctx: &Ctx, f: F) -> Report
where
    F: Fn(u64) -> ScenarioOut + Send + Sync + 'static,
{
    let mut c = ctx.clone();
    c.threads = 1;
    run_parallel(&c, 1, RunOpts::default(), f)
}

pub fn read_replay(ctx: &Ctx) -> Option<Value> {
    let p = ctx.replay.as_ref()?;
    let txt = std::fs::read_to_string(p).ok()?;
    let v: Value = serde_json::from_str(&txt).ok()?;
    Some(v.get("witness").cloned().unwrap_or(v))
}

pub fn hex(bytes: &[u8]) -> String {
    let mut s = String::with_capacity(bytes.len() * 2);
    for b in bytes {
        s.push_str(&format!("{b:02x}"));
    }
    s
}

/// Truncate a list for evidence excerpts.
pub fn excerpt<T: Clone>(v: &[T], n: usize) -> Vec<T> {
    v.iter().take(n).cloned().collect()
}
