//! Deterministic PRNG (xoshiro256** seeded through splitmix64).

pub fn mix(mut z: u64) -> u64 {
    z = z.wrapping_add(0x9e3779b97f4a7c15);
    z = (z ^ (z >> 30)).wrapping_mul(0xbf58476d1ce4e5b9);
    z = (z ^ (z >> 27)).wrapping_mul(0x94d049bb133111eb);
    z ^ (z >> 31)
}

#[derive(Clone, Debug)]
pub struct Rng {
    s: [u64; 4],
}

impl Rng {
    pub fn new(seed: u64) -> Rng {
        let mut x = seed;
        let mut s = [0u64; 4];
        for w in s.iter_mut() {
            x = x.wrapping_add(0x9e3779b97f4a7c15);
            *w = mix(x);
        }
        Rng { s }
    }

    pub fn next_u64(&mut self) -> u64 {
        let result = self.s[1].wrapping_mul(5).rotate_left(7).wrapping_mul(9);
        let t = self.s[1] << 17;
        self.s[2] ^= self.s[0];
        self.s[3] ^= self.s[1];
        self.s[1] ^= self.s[2];
        self.s[0] ^= self.s[3];
        self.s[2] ^= t;
        self.s[3] = self.s[3].rotate_left(45);
        result
    }

    /// Uniform in 0..n (n > 0).
    pub fn below(&mut self, n: u64) -> u64 {
        assert!(n > 0);
        self.next_u64() % n
    }

    pub fn usize_below(&mut self, n: usize) -> usize {
        self.below(n as u64) as usize
    }

    /// Uniform in lo..=hi.
    pub fn range(&mut self, lo: u64, hi: u64) -> u64 {
        assert!(hi >= lo);
        lo + self.below(hi - lo + 1)
    }

    pub fn chance(&mut self, p: f64) -> bool {
        (self.next_u64() >> 11) as f64 / ((1u64 << 53) as f64) < p
    }

    pub fn coin(&mut self) -> bool {
        self.next_u64() & 1 == 1
    }

    pub fn pick<'a, T>(&mut self, items: &'a [T]) -> &'a T {
        &items[self.usize_below(items.len())]
    }

    pub fn pick_copy<T: Copy>(&mut self, items: &[T]) -> T {
        items[self.usize_below(items.len())]
    }

    pub fn shuffle<T>(&mut self, items: &mut [T]) {
        for i in (1..items.len()).rev() {
            let j = self.usize_below(i + 1);
            items.swap(i, j);
        }
    }

    pub fn fork(&mut self) -> Rng {
        Rng::new(self.next_u64())
    }
}

/// Keyed payload byte: byte `i` of stream `key`. Any loss, duplication,
/// reordering or alteration of a stream is located by offset.
pub fn keyed_byte(key: u64, i: u64) -> u8 {
    (mix(key ^ i.wrapping_mul(0x9e3779b97f4a7c15)) >> 24) as u8
}

pub fn keyed_bytes(key: u64, from: u64, len: usize) -> Vec<u8> {
    (0..len as u64).map(|i| keyed_byte(key, from + i)).collect()
}
