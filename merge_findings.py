#!/usr/bin/env python3
"""Merge the engines' PROPOSED_FINDINGS.json into known_findings.json (idempotent:
entries are keyed by (property, signature)). Run by the coordinator only; the
file is never written at check run time."""
import json, glob
p='/verif/known_findings.json'
d=json.load(open(p))
have={(f['property'],f['signature']) for f in d['findings']}
for f in sorted(glob.glob('/verif/harness/*/PROPOSED_FINDINGS.json')):
    for e in json.load(open(f)).get('findings',[]):
        k=(e['property'],e['signature'])
        if k in have:
            for x in d['findings']:
                if (x['property'],x['signature'])==k:
                    x.update(e)
        else:
            d['findings'].append(e); have.add(k)
json.dump(d,open(p,'w'),indent=2)
print(len(d['findings']),'entries')
