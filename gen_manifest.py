#!/usr/bin/env python3
"""Regenerates /verif/MANIFEST.json from the table below and validates it."""
import json, subprocess, sys
P = {
 "C01": ("simnet", "exploration", "trace equality over repeated executions (2 threads, 2 processes)", "3.C01"),
 "C02": ("simnet", "exploration", "byte-stream history checker (keyed payload prefix oracle) + bounded completion in virtual time + exhaustive delivery permutations via Sim::links", "3.C02"),
 "C03": ("simnet", "fault_enumeration", "per-direction partition automaton over a totally ordered send/call/receive log; all call sequences of length <=3", "3.C03"),
 "C04": ("simnet", "fault_enumeration", "crash injected at every step of a workload: drop guards, progress counters, table-count hook, peer-unblock bounds, twin diff", "3.C04"),
 "C05": ("simnet", "exploration", "clock-sample arithmetic against the harness step counter", "3.C05"),
 "C06": ("netwire", "fault_enumeration", "harness-owned wire with per-packet fates: byte-stream prefix oracle + bounded liveness; DFS + random walks + fixtures", "3.C06"),
 "C07": ("fsmodel", "fault_enumeration", "durable-image reference model, crash after every prefix of every history", "3.C07"),
 "C08": ("simnet", "exploration", "per-message hold/in-flight state machine over the call/send/receive log; Sim::links snapshots vs model; all manual-delivery subsets/permutations", "3.C08"),
 "C09": ("simnet", "exploration", "UDP routing reference model (socket table, membership, filters) vs receive log", "3.C09"),
 "C10": ("fsmodel", "exploration", "POSIX tree differential after every operation", "3.C10"),
 "C11": ("simnet", "exploration", "outcome-set model of run/step incl. boundary ambiguity; run vs step twin; background tickers", "3.C11"),
 "C12": ("simnet", "exploration", "wire-trace driven accept-queue model fixing each connect's obligatory outcome; nonce bijection; stream-table counts", "3.C12"),
 "C13": ("netctl", "fault_enumeration", "connection lifecycle scripts under per-packet fates; nonce pairing; reclamation counts via hook; state-pair coverage", "3.C13"),
 "C14": ("simnet", "exploration", "stamped-message latency window + equal-latency order against a model of the latency setters", "3.C14"),
 "C15": ("simnet", "exploration", "port allocation model over bind/connect/drop/crash histories on tiny ephemeral ranges; DNS bijection checks", "3.C15"),
 "C16": ("netwire", "exploration", "per-packet MSS / peer-window invariants on the wire, buffer-cap invariants at quiescent points", "3.C16"),
 "C17": ("netctl", "exploration", "socket-table reference model + full probe matrix", "3.C17"),
 "C18": ("fsmodel", "exploration", "io_uring ring model (exactly-once CQE, latency lower bound, result equality) + Miri/ASan buffer discipline", "3.C18"),
 "C19": ("netctl", "exploration", "rule-invocation log vs chain model; delivery instants vs deadlines under fixtures", "3.C19"),
 "C20": ("simnet", "exploration", "trigger/report bijection and suspension counters over interleaved barrier histories", "3.C20"),
}
READY = set(sys.argv[1:]) if len(sys.argv) > 1 else set(open('/verif/READY').read().split())
checks, na = [], []
for pid, (eng, level, tech, ref) in sorted(P.items()):
    if pid not in READY:
        na.append({"property_id": pid, "reason": "monitor designed in DESIGN.md section %s but not finished yet in this round; no claim is made" % ref})
        continue
    checks.append({
        "property_id": pid,
        "quick_cmd": f"./check {pid} --tier quick",
        "thorough_cmd": f"./check {pid} --tier thorough",
        "evidence_file": f"/verif/evidence/{pid}.json",
        "replay_cmd_template": f"./check {pid} --replay {{path}}",
        "engine": eng,
        "level_claimed": {"category": level,
            "text": "Runtime monitoring: the real crate is executed under generated hostile workloads and the monitor (" + tech + ") decides every execution; the property held on the executions explored (counts and observed event kinds are in the evidence), nothing is claimed about unexplored ones.",
            "design_ref": "DESIGN.md section " + ref},
        "level_note": "Trusted base: the harness's own reference model/oracle written from the property text, the harness step counter and event log, tokio's paused clock. Known findings (genuine defects recorded rather than repaired) are listed in known_findings.json and matched by exact signature.",
        "technique": "runtime monitoring: " + tech,
    })
m = {
 "version": 1,
 "setup_cmd": "cd /verif/harness && CARGO_NET_OFFLINE=true cargo build --release --offline",
 "hooks": {
   "guard": "--cfg turmoil_verif (rustc cfg flag)",
   "enable": "harness/.cargo/config.toml passes --cfg tokio_unstable --cfg turmoil_verif to every crate; the harness depends on /repo/crates/* by path",
   "baseline_off_cmd": "cd /repo && cargo nextest run --workspace --no-fail-fast --offline || cargo test --workspace --no-fail-fast --offline",
   "source_commits": [l.split()[0] for l in subprocess.run("git -C /repo log --format='%h %s' | grep ' verif:'", shell=True, capture_output=True, text=True).stdout.splitlines()],
   "add_only": True,
 },
 "engines": [
   {"name": "simnet", "path": "harness/simnet", "serves_properties": [p for p in sorted(P) if P[p][0]=="simnet"], "kind_free_text": "scenario runner + monitors for the turmoil crate (Sim, net, barriers)"},
   {"name": "netwire", "path": "harness/netwire", "serves_properties": ["C06","C16"], "kind_free_text": "harness-owned wire driver for turmoil-net TCP data path"},
   {"name": "netctl", "path": "harness/netctl", "serves_properties": ["C13","C17","C19"], "kind_free_text": "harness-owned wire driver for turmoil-net connection lifecycle, socket table, rules"},
   {"name": "fsmodel", "path": "harness/fsmodel", "serves_properties": ["C07","C10","C18"], "kind_free_text": "reference models + history drivers for turmoil-fs / turmoil-io-uring"},
 ],
 "checks": checks,
 "not_applicable": na,
 "notes": "Exit codes: 0 held on everything explored (KNOWN-FINDING lines possible), 1 VIOLATION, 2 INCONCLUSIVE (harness error / watchdog / coverage below minimum). Fix commits in /repo start with 'fix:'; hook commits with 'verif:'.",
}
json.dump(m, open('/verif/MANIFEST.json','w'), indent=1)
print("claimed:", [c["property_id"] for c in checks])
