//! C17 hunt #2: IPv6 peer given with a scope id / flowinfo.
use std::net::{Ipv6Addr, SocketAddr, SocketAddrV6};
use std::time::Duration;

use turmoil_net::fixture::{lo, ClientServer};
use turmoil_net::shim::tokio::net::{TcpListener, TcpStream, UdpSocket};

#[test]
fn tcp_connect_with_scope_id() {
    lo(async move {
        let l = TcpListener::bind("[::1]:9000").await.unwrap();
        let peer = SocketAddr::V6(SocketAddrV6::new(Ipv6Addr::LOCALHOST, 9000, 0, 3));
        let c = TcpStream::connect(peer).await;
        assert!(c.is_ok(), "connect to live listener: {:?}", c.err());
        let _ = l.accept().await.unwrap();
    });
}

#[test]
fn udp_connected_with_scope_id() {
    ClientServer::new()
        .server("fe80::1", async move {
            let s = UdpSocket::bind("[::]:9000").await.unwrap();
            let mut buf = [0u8; 16];
            loop {
                let (n, from) = s.recv_from(&mut buf).await.unwrap();
                s.send_to(&buf[..n], from).await.unwrap();
            }
        })
        .run("fe80::2", async move {
            let c = UdpSocket::bind("[::]:0").await.unwrap();
            let peer = SocketAddr::V6(SocketAddrV6::new("fe80::1".parse().unwrap(), 9000, 0, 3));
            c.connect(peer).await.unwrap();
            c.send(b"hi").await.unwrap();
            let mut buf = [0u8; 16];
            let r = tokio::time::timeout(Duration::from_secs(5), c.recv(&mut buf)).await;
            assert!(r.is_ok(), "echo from the connected peer never arrives");
        });
}
