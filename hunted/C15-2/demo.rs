//! C15 hunt 2: a client port, legitimately released by dropping the client's
//! stream, is reused for a new connection to the same server while the server
//! still holds the previous accepted stream.
use std::time::Duration;

use tokio::io::{AsyncReadExt, AsyncWriteExt};
use turmoil::net::{TcpListener, TcpStream};
use turmoil::{Builder, Result};

const PORT: u16 = 80;

#[test]
fn reuse_of_released_client_port_while_server_holds_old_stream() -> Result {
    let mut sim = Builder::new()
        .tick_duration(Duration::from_millis(1))
        .min_message_latency(Duration::from_millis(1))
        .max_message_latency(Duration::from_millis(1))
        .ephemeral_ports(49152..=49153)
        .build();

    sim.host("server", || async {
        let listener = TcpListener::bind(("0.0.0.0", PORT)).await?;
        let mut held = vec![];
        loop {
            let (mut s, _) = listener.accept().await?;
            s.write_all(b"hi").await?;
            // keep every accepted stream open (a server with long-lived
            // per-connection state that has not noticed EOF yet)
            held.push(s);
        }
    });

    sim.client("client", async {
        for _ in 0..4 {
            let mut s = TcpStream::connect(("server", PORT)).await?;
            let mut b = [0u8; 2];
            s.read_exact(&mut b).await?;
            drop(s); // port released: socket dropped
            tokio::time::sleep(Duration::from_millis(5)).await;
        }
        Ok(())
    });

    sim.run()
}

/// Same defect reached through crash/bounce: the server is well behaved (it
/// reads to EOF and drops the stream at once), but the restarted host
/// reconnects from the port that its crash released before the server task
/// that owns the old stream got to run.
#[test]
fn bounce_then_reconnect_from_released_port() -> Result {
    let mut sim = Builder::new()
        .tick_duration(Duration::from_millis(1))
        .min_message_latency(Duration::from_millis(1))
        .max_message_latency(Duration::from_millis(20))
        .rng_seed(2)
        .ephemeral_ports(49152..=49152)
        .build();

    sim.host("server", || async {
        let listener = TcpListener::bind(("0.0.0.0", PORT)).await?;
        loop {
            let (mut s, _) = listener.accept().await?;
            tokio::spawn(async move {
                let mut b = [0u8; 16];
                while let Ok(n) = s.read(&mut b).await {
                    if n == 0 {
                        break;
                    }
                }
                // EOF or reset: stream dropped here
            });
        }
    });

    sim.host("app", || async {
        let mut s = TcpStream::connect(("server", PORT)).await?;
        s.write_all(b"hello").await?;
        std::future::pending::<()>().await;
        Ok(())
    });

    sim.client("driver", async {
        tokio::time::sleep(Duration::from_millis(100)).await;
        Ok(())
    });

    for _ in 0..60 {
        sim.step()?;
    }
    sim.bounce("app");
    sim.run()
}
