//! C20 hunt #1: a `Reaction::Panic` barrier on the filesystem corruption
//! trigger (`FsCorruption`, fired synchronously from the fs corruption hook)
//! must panic *the triggering code* -- i.e. the one read that was corrupted.
//!
//! What actually happens: the hook runs while the host's `Fs` mutex is held,
//! so the injected panic poisons that mutex. From then on every filesystem
//! operation on that host panics with "Fs mutex poisoned" -- operations that
//! trigger nothing, after the barrier has been dropped, and even after the
//! host has been bounced. (If the `File` is dropped while the injected panic
//! unwinds -- the normal case -- `File::drop` panics on the poisoned mutex
//! during unwinding and the whole test process aborts; see
//! `panic_barrier_on_fs_corruption_aborts` below, `#[ignore]`d because it
//! kills the test harness.)
#![cfg(all(feature = "unstable-barriers", feature = "unstable-fs"))]

use std::cell::RefCell;
use std::os::unix::fs::FileExt;
use std::panic::{catch_unwind, AssertUnwindSafe};
use std::rc::Rc;

use turmoil::barriers::{Barrier, Reaction};
use turmoil::fs::shim::std::fs::{create_dir_all, metadata, OpenOptions};
use turmoil::fs::FsCorruption;
use turmoil::Builder;

fn panic_msg(p: Box<dyn std::any::Any + Send>) -> String {
    if let Some(s) = p.downcast_ref::<&'static str>() {
        s.to_string()
    } else if let Some(s) = p.downcast_ref::<String>() {
        s.clone()
    } else {
        "<non-string panic>".into()
    }
}

#[test]
fn panic_barrier_on_fs_corruption_breaks_unrelated_fs_code() {
    let mut builder = Builder::new();
    builder.fs().corruption_probability(1.0);
    let mut sim = builder.build();

    // phase 0: first boot, phase 1: after bounce
    let log: Rc<RefCell<Vec<String>>> = Rc::new(RefCell::new(vec![]));
    let boots = Rc::new(RefCell::new(0usize));

    let barrier = Barrier::build(Reaction::Panic, |_c: &FsCorruption| true);

    let log_h = log.clone();
    let boots_h = boots.clone();
    sim.host("server", move || {
        let log = log_h.clone();
        let boots = boots_h.clone();
        async move {
            let boot = {
                let mut b = boots.borrow_mut();
                *b += 1;
                *b
            };
            if boot == 1 {
                create_dir_all("/data")?;
                let file = OpenOptions::new()
                    .read(true)
                    .write(true)
                    .create(true)
                    .open("/data/f")?;
                file.write_all_at(b"hello world", 0)?;
                file.sync_all()?;

                // The triggering code: a corrupted read. The Panic barrier
                // must make *this* panic. The application handles the panic.
                let mut buf = [0u8; 11];
                let r = catch_unwind(AssertUnwindSafe(|| file.read_at(&mut buf, 0)));
                match r {
                    Err(p) => log.borrow_mut().push(format!("read: panic: {}", panic_msg(p))),
                    Ok(_) => log.borrow_mut().push("read: no panic".into()),
                }

                // Code that triggers nothing at all: a metadata lookup.
                let r = catch_unwind(AssertUnwindSafe(|| metadata("/data/f").map(|m| m.len())));
                match r {
                    Err(p) => log
                        .borrow_mut()
                        .push(format!("metadata: panic: {}", panic_msg(p))),
                    Ok(r) => log.borrow_mut().push(format!("metadata: ok {:?}", r.ok())),
                }
                // keep the file alive forever so that its Drop (which would
                // also panic on the poisoned mutex) never runs in this test
                std::mem::forget(file);
            } else {
                // After bounce; the barrier has been dropped by now so no
                // trigger can match anything.
                let r = catch_unwind(AssertUnwindSafe(|| metadata("/data/f").map(|m| m.len())));
                match r {
                    Err(p) => log
                        .borrow_mut()
                        .push(format!("after-bounce metadata: panic: {}", panic_msg(p))),
                    Ok(r) => log
                        .borrow_mut()
                        .push(format!("after-bounce metadata: ok {:?}", r.ok())),
                }
            }
            std::future::pending::<()>().await;
            Ok(())
        }
    });

    for _ in 0..5 {
        sim.step().unwrap();
    }
    drop(barrier);
    sim.bounce("server");
    for _ in 0..5 {
        sim.step().unwrap();
    }

    let log = log.borrow().clone();
    println!("{log:#?}");
    assert_eq!(
        log[0], "read: panic: Injected panic from barrier",
        "the Panic barrier panics the triggering read"
    );
    // The statement says the Panic barrier panics the *triggering code*.
    // Nothing else on the host should be affected.
    assert_eq!(
        log[1], "metadata: ok Some(11)",
        "an fs call that triggers nothing must not be affected by the Panic barrier"
    );
    assert_eq!(
        log[2], "after-bounce metadata: ok Some(11)",
        "after the barrier is dropped (and the host rebooted) nothing may be affected"
    );
}

/// The natural shape of the same scenario: the host simply reads the file.
/// The injected panic unwinds through `File::drop`, which panics again on the
/// poisoned `Fs` mutex => "panic in a destructor during cleanup" => the
/// process aborts (SIGABRT) instead of the triggering code panicking.
#[test]
#[ignore = "aborts the whole test process"]
fn panic_barrier_on_fs_corruption_aborts() {
    let mut builder = Builder::new();
    builder.fs().corruption_probability(1.0);
    let mut sim = builder.build();
    let _barrier = Barrier::build(Reaction::Panic, |_c: &FsCorruption| true);
    sim.client("c", async {
        create_dir_all("/data")?;
        let file = OpenOptions::new()
            .read(true)
            .write(true)
            .create(true)
            .open("/data/f")?;
        file.write_all_at(b"hello world", 0)?;
        let mut buf = [0u8; 11];
        let _ = file.read_at(&mut buf, 0);
        Ok(())
    });
    // Expected: Err(..) or a panic that `catch_unwind` can observe.
    let r = catch_unwind(AssertUnwindSafe(|| sim.run()));
    println!("survived: {:?}", r.map(|r| r.is_ok()));
}
