//! C01 hunt #3: the host software factory (the `Fn` passed to `Sim::host`)
//! runs again inside `Sim::bounce`. `turmoil::sim_elapsed()` /
//! `turmoil::since_epoch()` read there must be a function of the simulation
//! only.

use std::sync::{Arc, Mutex};
use std::time::{Duration, SystemTime};

use turmoil::Builder;

type Reading = (Option<Duration>, Option<Duration>);

fn scenario(machine_stall: Duration) -> Vec<Reading> {
    let log: Arc<Mutex<Vec<Reading>>> = Arc::new(Mutex::new(Vec::new()));

    let mut sim = Builder::new()
        .rng_seed(11)
        .epoch(SystemTime::UNIX_EPOCH + Duration::from_secs(1_000_000))
        .tick_duration(Duration::from_millis(1))
        .build();

    let host_log = log.clone();
    sim.host("server", move || {
        // "started at" stamp taken when the software (re)starts
        host_log
            .lock()
            .unwrap()
            .push((turmoil::sim_elapsed(), turmoil::since_epoch()));
        async move {
            std::future::pending::<()>().await;
            Ok(())
        }
    });

    for _ in 0..3 {
        sim.step().unwrap();
    }
    // wall-clock time lost by the test thread; not part of the simulation
    std::thread::sleep(machine_stall);
    sim.bounce("server");

    let out = log.lock().unwrap().clone();
    out
}

#[test]
fn bounce_time_reading_is_reproducible() {
    let a = scenario(Duration::ZERO);
    let b = scenario(Duration::from_millis(40));
    assert_eq!(a, b);
}
