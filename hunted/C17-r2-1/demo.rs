//! C17 hunt #1: an orphaned connection whose peer advertises a zero
//! window never sends its FIN (no persist timer, FIN gated on window)
//! and keeps its binding for ever.
use std::io::ErrorKind;
use std::time::Duration;

use turmoil_net::fixture::ClientServer;
use turmoil_net::shim::tokio::net::{TcpListener, TcpStream};

#[test]
fn orphan_behind_zero_window_keeps_binding_for_ever() {
    ClientServer::new()
        .server("peer", async move {
            // Connects, never reads, never closes.
            let s = loop {
                match TcpStream::connect("me:9000").await {
                    Ok(s) => break s,
                    Err(_) => tokio::time::sleep(Duration::from_millis(5)).await,
                }
            };
            std::future::pending::<()>().await;
            drop(s);
        })
        .run("me", async move {
            let l = TcpListener::bind("0.0.0.0:9000").await.unwrap();
            let (s, _) = l.accept().await.unwrap();
            let chunk = vec![7u8; 64 * 1024];
            // Fill the peer's receive buffer (64 KiB) ...
            let mut total = 0;
            for _ in 0..200 {
                match s.try_write(&chunk) {
                    Ok(n) => total += n,
                    Err(e) if e.kind() == ErrorKind::WouldBlock => {}
                    Err(e) => panic!("{e}"),
                }
                tokio::time::sleep(Duration::from_millis(5)).await;
            }
            assert!(total > 64 * 1024, "wrote {total}");
            // ... and close everything on this host.
            drop(s);
            drop(l);
            // Give the orphan ten minutes of simulated time (Linux kills such an orphan after ~1 min of zero-window probes).
            tokio::time::sleep(Duration::from_secs(600)).await;
            let r = TcpListener::bind("0.0.0.0:9000").await;
            assert!(
                r.is_ok(),
                "re-bind after 10 min: {:?}; socket table of this host:\n{}",
                r.err(),
                turmoil_net::netstat("me")
            );
        });
}
