//! C11 hunt, finding 1: `Builder::tick_duration(Duration::ZERO)` is accepted
//! and makes `Sim::run` spin forever.
//!
//! With a zero tick `Rt::tick` runs `LocalSet::run_until(sleep(0))`. The
//! zero-length sleep is ready on the first poll, `run_until` returns before it
//! ticks the `LocalSet`, so no client or host software is ever polled, and
//! `Sim::elapsed` never advances (`elapsed += 0`), so the duration check can
//! never fire either. `Sim::run` neither returns `Ok` (the client below is
//! `async { Ok(()) }` and would finish at virtual time 0) nor `Err`.

use std::cell::Cell;
use std::rc::Rc;
use std::time::Duration;

use turmoil::Builder;

/// Deterministic form: drive the simulation by hand for a bounded number of
/// steps. A client that is ready at once must be reported finished by the
/// first step; failing that, elapsed time must grow so that the duration is
/// eventually exceeded. Neither happens.
#[test]
fn zero_tick_steps_make_no_progress() {
    let mut sim = Builder::new()
        .tick_duration(Duration::ZERO)
        .simulation_duration(Duration::from_millis(10))
        .build();

    let polled = Rc::new(Cell::new(false));
    let p = polled.clone();
    sim.client("client", async move {
        p.set(true);
        Ok(())
    });

    for step in 1..=100_000u32 {
        match sim.step() {
            Ok(true) => return, // finished: what the property asks for
            Ok(false) => {}
            Err(e) => panic!("step {step} returned Err({e}) for a client that is Ok at once"),
        }
    }

    panic!(
        "100000 steps taken: client polled = {}, Sim::elapsed() = {:?}; \
         Sim::run would loop on this forever (neither Ok nor Err)",
        polled.get(),
        sim.elapsed()
    );
}

/// The same through `Sim::run`, guarded by a wall-clock watchdog because the
/// call does not return.
#[test]
fn zero_tick_run_never_returns() {
    let (tx, rx) = std::sync::mpsc::channel();
    std::thread::spawn(move || {
        let mut sim = Builder::new()
            .tick_duration(Duration::ZERO)
            .simulation_duration(Duration::from_millis(10))
            .build();
        sim.client("client", async { Ok(()) });
        let r = sim.run().map_err(|e| e.to_string());
        let _ = tx.send(r);
    });

    match rx.recv_timeout(Duration::from_secs(5)) {
        Ok(r) => assert_eq!(r, Ok(()), "the only client returns Ok at once"),
        Err(_) => panic!("Sim::run did not return within 5 s of wall time (it spins forever)"),
    }
}
