//! C04 hunt 5: Sim::crash / Sim::bounce drop the host's tasks outside the
//! host's fs / io_uring context (which `Sim::step` enters around every tick).
//! A destructor that reaches the fs shim -- the stock example is
//! `std::io::BufWriter<File>`, which flushes on drop -- therefore panics with
//! "turmoil-fs: no Fs is current" in the middle of Sim::crash. With one such
//! value per task tokio swallows the panic (the destructor is cut short); with
//! two in the same task the second panic happens during unwinding and the
//! process aborts, i.e. Sim::crash never returns.

use std::io::{BufWriter, Write};
use std::sync::atomic::{AtomicUsize, Ordering::SeqCst};
use std::sync::{Arc, Mutex};
use std::time::Duration;

use turmoil::fs::shim::std::fs as sfs;
use turmoil::{Builder, Result};

fn sim_with_writers(n: usize) -> turmoil::Sim<'static> {
    let mut sim = Builder::new()
        .tick_duration(Duration::from_millis(1))
        .rng_seed(1)
        .build();
    sim.host("node", move || async move {
        sfs::create_dir_all("/log")?;
        let mut writers = vec![];
        for i in 0..n {
            let f = sfs::File::create(format!("/log/{i}"))?;
            let mut w = BufWriter::new(f);
            // stays in the BufWriter's buffer until flush / drop
            w.write_all(b"buffered record")?;
            writers.push(w);
        }
        std::future::pending::<()>().await;
        drop(writers);
        Ok(())
    });
    sim.client("c", async {
        tokio::time::sleep(Duration::from_millis(50)).await;
        Ok(())
    });
    sim
}

/// One BufWriter: the destructor panics inside Sim::crash.
#[test]
fn destructor_panics_inside_crash() -> Result {
    let mut sim = sim_with_writers(1);
    for _ in 0..5 {
        sim.step()?;
    }

    // Dropping the very same value while the host is being stepped is fine
    // (that is what happens when the task ends normally); only the crash /
    // bounce path runs destructors without the host's fs context.
    let panics = Arc::new(AtomicUsize::new(0));
    let msgs = Arc::new(Mutex::new(Vec::<String>::new()));
    let (p, m) = (panics.clone(), msgs.clone());
    let prev = std::panic::take_hook();
    std::panic::set_hook(Box::new(move |info| {
        p.fetch_add(1, SeqCst);
        m.lock().unwrap().push(info.to_string());
    }));
    sim.crash("node");
    std::panic::set_hook(prev);

    assert_eq!(
        panics.load(SeqCst),
        0,
        "task destructors panicked inside Sim::crash: {:?}",
        msgs.lock().unwrap()
    );
    Ok(())
}

/// Same for a bounce of a running host.
#[test]
fn destructor_panics_inside_bounce() -> Result {
    let mut sim = sim_with_writers(1);
    for _ in 0..5 {
        sim.step()?;
    }
    let panics = Arc::new(AtomicUsize::new(0));
    let msgs = Arc::new(Mutex::new(Vec::<String>::new()));
    let (p, m) = (panics.clone(), msgs.clone());
    let prev = std::panic::take_hook();
    std::panic::set_hook(Box::new(move |info| {
        p.fetch_add(1, SeqCst);
        m.lock().unwrap().push(info.to_string());
    }));
    sim.bounce("node");
    std::panic::set_hook(prev);
    assert_eq!(
        panics.load(SeqCst),
        0,
        "task destructors panicked inside Sim::bounce: {:?}",
        msgs.lock().unwrap()
    );
    Ok(())
}

/// Two BufWriters in one task: the second flush panics while the first panic
/// is unwinding -> the whole process aborts inside Sim::crash. Run in a child
/// process so that the parent can report it as an ordinary test failure.
#[test]
fn two_writers_abort_the_process() {
    if std::env::var("HUNT_C04_CHILD").is_ok() {
        let mut sim = sim_with_writers(2);
        for _ in 0..5 {
            sim.step().unwrap();
        }
        sim.crash("node");
        eprintln!("CHILD: Sim::crash returned");
        return;
    }
    let exe = std::env::current_exe().unwrap();
    let out = std::process::Command::new(exe)
        .args(["two_writers_abort_the_process", "--exact", "--nocapture", "--test-threads=1"])
        .env("HUNT_C04_CHILD", "1")
        .output()
        .unwrap();
    let stderr = String::from_utf8_lossy(&out.stderr);
    assert!(
        out.status.success(),
        "child did not survive Sim::crash: status={:?}\n--- child stderr (tail) ---\n{}",
        out.status,
        stderr.lines().rev().take(12).collect::<Vec<_>>().into_iter().rev().collect::<Vec<_>>().join("\n")
    );
}

/// Same root cause, silent variant: `File::drop` / `IoUring::drop` skip their
/// cleanup when no context is entered, so the crashed incarnation's fd-table
/// entries are still there when the next incarnation starts.
#[test]
fn crash_leaks_fd_table_entries() -> Result {
    let mut sim = Builder::new()
        .tick_duration(Duration::from_millis(1))
        .rng_seed(1)
        .build();
    let seen = Arc::new(Mutex::new(Vec::<usize>::new()));
    let s = seen.clone();
    sim.host("node", move || {
        let s = s.clone();
        async move {
            let open = turmoil::fs::FsContext::current(|ctx| ctx.fs.open_handles.len());
            s.lock().unwrap().push(open);
            sfs::create_dir_all("/d")?;
            let _a = sfs::File::create("/d/a")?;
            let _b = sfs::File::create("/d/b")?;
            std::future::pending::<()>().await;
            Ok(())
        }
    });
    sim.client("c", async {
        tokio::time::sleep(Duration::from_millis(30)).await;
        Ok(())
    });
    for _ in 0..5 {
        sim.step()?;
    }
    sim.crash("node");
    sim.bounce("node");
    sim.run()?;
    assert_eq!(
        *seen.lock().unwrap(),
        vec![0, 0],
        "open file descriptors seen at the start of each incarnation"
    );
    Ok(())
}
