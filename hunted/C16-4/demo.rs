//! C16 hunt #4: a single lost window update wedges the connection.
//!
//! The receiver's buffer fills (ACK with window 0), the application then
//! drains it and the kernel emits exactly one window update. If that one
//! segment is lost (bounded loss: one packet), the sender keeps window 0
//! with nothing in flight, so there is no retransmission and no zero
//! window probe; the receiver has nothing more to say. Bytes accepted by
//! `write` sit in the send buffer forever and a writer blocked on the
//! send-buffer cap is never released, although the peer's buffer is empty.

use std::time::Duration;

use tokio::io::{AsyncReadExt, AsyncWriteExt};
use turmoil_net::fixture::ClientServer;
use turmoil_net::shim::tokio::net::{TcpListener, TcpStream};
use turmoil_net::{netstat, rule, KernelConfig, Packet, Transport, Verdict};

const RECV_CAP: usize = 1000;
const SEND_CAP: usize = 2000;
const TOTAL: usize = 20_000;

#[test]
fn control_without_loss_completes() {
    run(false);
}

#[test]
fn one_lost_window_update_must_not_stall_forever() {
    run(true);
}

fn run(lose_one: bool) {
    let cfg = KernelConfig::default()
        .recv_buf_cap(RECV_CAP)
        .send_buf_cap(SEND_CAP);

    ClientServer::with_config(cfg)
        .server("server", async move {
            let l = TcpListener::bind("0.0.0.0:9000").await.unwrap();
            let (mut sock, _) = l.accept().await.unwrap();
            // Let the buffer fill up first.
            tokio::time::sleep(Duration::from_millis(10)).await;
            let mut buf = vec![0u8; TOTAL];
            sock.read_exact(&mut buf).await.unwrap();
            sock.write_all(b"k").await.unwrap();
            std::future::pending::<()>().await;
        })
        .run("client", async move {
            // Drop the first server->client pure ACK that re-opens the
            // window after a zero window was advertised. One packet.
            let mut saw_zero = false;
            let mut dropped = false;
            rule(move |pkt: &Packet| {
                let Transport::Tcp(s) = &pkt.payload else {
                    return Verdict::Pass;
                };
                if s.src_port == 9000 && !s.flags.syn {
                    if s.window == 0 {
                        saw_zero = true;
                    } else if lose_one && saw_zero && !dropped && s.payload.is_empty() {
                        dropped = true;
                        return Verdict::Drop;
                    }
                }
                Verdict::Pass
            })
            .forget();

            let mut c = TcpStream::connect("server:9000").await.unwrap();
            // Learn the real window first (the SYN-ACK carries 65535).
            c.write_all(&[0u8; 1]).await.unwrap();
            tokio::time::sleep(Duration::from_millis(5)).await;
            // 20 kB through a 2 kB send buffer: the writer has to block on
            // the cap and be released by ACKs, over and over.
            let r = tokio::time::timeout(Duration::from_secs(60), async {
                c.write_all(&[1u8; TOTAL - 1]).await.unwrap();
                let mut k = [0u8; 1];
                c.read_exact(&mut k).await.unwrap();
            })
            .await;
            assert!(
                r.is_ok(),
                "writer still blocked on a full send buffer after 60 s of simulated time; the \
                 peer's receive buffer is empty and its reader is waiting (one window update \
                 was lost)\n{}\n{}",
                netstat("client"),
                netstat("server"),
            );
        });
}
