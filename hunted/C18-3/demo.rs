//! C18 hunt #3: a ring `Fsync` is subject to `io_error_probability`, the
//! synchronous `File::sync_all` is not.
//!
//! With `io_error_probability(1.0)` (documented as "I/O errors on
//! reads/writes") `sync_all()` returns Ok and makes the pending size change
//! durable; the Fsync SQE on the same descriptor completes with -EIO and the
//! change is lost in the crash that follows.

use std::os::fd::AsRawFd;
use std::sync::atomic::{AtomicI32, AtomicU64, AtomicUsize, Ordering};
use std::sync::Arc;
use turmoil::fs::shim::std::fs::{create_dir_all, metadata, sync_dir, OpenOptions};
use turmoil::io_uring::{opcode, types, IoUring};
use turmoil::{Builder, Result};

/// One round: create a durable empty file, extend it to 8 bytes (pending),
/// fsync it (through the ring or through the sync API), crash, bounce, look
/// at the length. Returns (fsync result in CQE form, length after the crash).
fn round(via_ring: bool) -> (i32, u64) {
    let mut builder = Builder::new();
    builder.fs().io_error_probability(1.0);
    let mut sim = builder.build();

    let phase = Arc::new(AtomicUsize::new(0));
    let fsync_res = Arc::new(AtomicI32::new(i32::MIN));
    let len_after = Arc::new(AtomicU64::new(u64::MAX));

    let (p, fr, la) = (phase.clone(), fsync_res.clone(), len_after.clone());
    sim.host("h", move || {
        let (p, fr, la) = (p.clone(), fr.clone(), la.clone());
        async move {
            if p.load(Ordering::SeqCst) == 0 {
                create_dir_all("/d")?;
                sync_dir("/")?;
                let file = OpenOptions::new()
                    .read(true)
                    .write(true)
                    .create(true)
                    .open("/d/f")?;
                file.sync_all()?;
                sync_dir("/d")?;

                // Pending, not yet durable.
                file.set_len(8)?;

                let res = if via_ring {
                    let mut ring = IoUring::new(4)?;
                    let f = opcode::Fsync::new(types::Fd(file.as_raw_fd()))
                        .build()
                        .user_data(9);
                    unsafe { ring.submission().push(&f).expect("push") };
                    ring.submit()?;
                    let mut cq = ring.completion();
                    cq.sync();
                    let cqe = cq.next().expect("fsync CQE");
                    assert_eq!(cqe.user_data(), 9);
                    cqe.result()
                } else {
                    match file.sync_all() {
                        Ok(()) => 0,
                        Err(e) => -(e.raw_os_error().unwrap_or(5)),
                    }
                };
                fr.store(res, Ordering::SeqCst);
                std::mem::forget(file);
                p.store(1, Ordering::SeqCst);
            } else {
                la.store(metadata("/d/f")?.len(), Ordering::SeqCst);
                p.store(3, Ordering::SeqCst);
            }
            std::future::pending::<()>().await;
            Ok(())
        }
    });

    while phase.load(Ordering::SeqCst) != 1 {
        sim.step().unwrap();
    }
    sim.crash("h");
    phase.store(2, Ordering::SeqCst);
    sim.bounce("h");
    while phase.load(Ordering::SeqCst) != 3 {
        sim.step().unwrap();
    }
    (
        fsync_res.load(Ordering::SeqCst),
        len_after.load(Ordering::SeqCst),
    )
}

#[test]
fn ring_fsync_result_and_effect_equal_sync_all() -> Result {
    let sync_api = round(false);
    let ring = round(true);
    assert_eq!(sync_api, (0, 8), "sync_all() is not subject to io errors");
    assert_eq!(
        ring, sync_api,
        "(fsync result, file length after crash): ring vs synchronous API"
    );
    Ok(())
}
