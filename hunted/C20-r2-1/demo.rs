//! C20 hunt, hypothesis 1 (round 2).
//!
//! A Panic barrier matching the fs corruption hook's trigger must panic the
//! triggering read and nothing else. Once the barrier has been dropped, a
//! trigger "returns immediately and is reported nowhere", so a later read of
//! the same (shared) file must complete.
//!
//! `impl Read for File` (and the tokio `AsyncRead` built on it) fires the hook
//! while the file's `cursor` mutex guard is alive, so the injected panic
//! poisons the cursor: every later `read` / `write` / `seek` through that
//! handle panics with a `PoisonError`, barrier or no barrier.
#![cfg(all(feature = "unstable-fs", feature = "unstable-barriers"))]

use std::cell::{Cell, RefCell};
use std::io::{Read, Seek, SeekFrom};
use std::os::unix::fs::FileExt;
use std::panic::{catch_unwind, AssertUnwindSafe};
use std::rc::Rc;
use std::time::Duration;

use turmoil::barriers::{Barrier, Reaction};
use turmoil::fs::shim::std::fs::{create_dir, File, OpenOptions};
use turmoil::fs::FsCorruption;
use turmoil::{Builder, Result};

fn panic_text(e: Box<dyn std::any::Any + Send>) -> String {
    if let Some(s) = e.downcast_ref::<String>() {
        s.clone()
    } else if let Some(s) = e.downcast_ref::<&str>() {
        s.to_string()
    } else {
        "<non-string panic>".into()
    }
}

fn open_shared() -> std::io::Result<Rc<RefCell<File>>> {
    create_dir("/data")?;
    let file = OpenOptions::new()
        .read(true)
        .write(true)
        .create(true)
        .open("/data/file.bin")?;
    file.write_all_at(b"0123456789abcdef", 0)?;
    Ok(Rc::new(RefCell::new(file)))
}

/// How the triggering code reads the shared file.
#[derive(Clone, Copy)]
enum Via {
    /// `std::io::Read::read` (cursor based)
    Read,
    /// `FileExt::read_at` (positional, control)
    ReadAt,
}

fn scenario(via: Via) -> Result {
    let mut builder = Builder::new();
    builder.fs().corruption_probability(1.0);
    let mut sim = builder.build();

    // earliest (and only) live barrier for FsCorruption: Panic
    let mut barrier = Barrier::build(Reaction::Panic, |_: &FsCorruption| true);

    let worker_panicked = Rc::new(Cell::new(false));
    let barrier_gone = Rc::new(Cell::new(false));
    let later = Rc::new(RefCell::new(Vec::<String>::new()));

    let (wp, bg, out) = (worker_panicked.clone(), barrier_gone.clone(), later.clone());
    sim.client("node", async move {
        let shared = open_shared()?;

        // The triggering code: a read whose caller handles the panic (that
        // is what a Panic barrier is for: "testing how panics are handled").
        let mut buf = [0u8; 4];
        let r = catch_unwind(AssertUnwindSafe(|| match via {
            Via::Read => shared.borrow_mut().read(&mut buf).map(|_| ()),
            Via::ReadAt => shared.borrow().read_at(&mut buf, 0).map(|_| ()),
        }));
        let p = r.expect_err("the Panic barrier panics the read");
        assert!(panic_text(p).contains("Injected panic from barrier"));
        wp.set(true);

        // Wait until the test has dropped the barrier.
        while !bg.get() {
            tokio::time::sleep(Duration::from_millis(1)).await;
        }

        // No live barrier any more: these triggers match nothing, so each
        // read must simply return (corrupted data, but no panic).
        let mut buf = [0u8; 4];
        let r = catch_unwind(AssertUnwindSafe(|| shared.borrow_mut().read(&mut buf)));
        out.borrow_mut().push(match r {
            Ok(Ok(n)) => format!("read ok {n}"),
            Ok(Err(e)) => format!("read err {e}"),
            Err(p) => format!("read PANIC {}", panic_text(p)),
        });
        let r = catch_unwind(AssertUnwindSafe(|| {
            shared.borrow_mut().seek(SeekFrom::Start(0))
        }));
        out.borrow_mut().push(match r {
            Ok(Ok(n)) => format!("seek ok {n}"),
            Ok(Err(e)) => format!("seek err {e}"),
            Err(p) => format!("seek PANIC {}", panic_text(p)),
        });
        Ok(())
    });

    // Run until the read has been panicked by the barrier.
    let mut steps = 0;
    while !worker_panicked.get() {
        sim.step()?;
        steps += 1;
        assert!(steps < 100, "read never panicked");
    }

    // The barrier observed exactly that one trigger.
    let seen = tokio_test::task::spawn(barrier.wait()).poll();
    match seen {
        std::task::Poll::Ready(Some(t)) => assert_eq!(t.path.to_str(), Some("/data/file.bin")),
        _ => panic!("the Panic barrier did not observe the trigger"),
    }
    assert!(tokio_test::task::spawn(barrier.wait()).poll().is_pending());

    // Drop the barrier: from now on FsCorruption triggers match nothing.
    drop(barrier);
    barrier_gone.set(true);

    sim.run()?;

    let later = later.borrow().clone();
    assert_eq!(
        later,
        vec!["read ok 4".to_string(), "seek ok 0".to_string()],
        "operations on the shared file AFTER the Panic barrier was dropped"
    );
    Ok(())
}

/// Control: the positional read does not hold the cursor; the file stays usable.
#[test]
fn control_read_at_then_file_still_usable() -> Result {
    scenario(Via::ReadAt)
}

/// FAILS: the cursor mutex is poisoned by the injected panic.
#[test]
fn panic_barrier_on_read_poisons_file_cursor() -> Result {
    scenario(Via::Read)
}

/// Second shape of the same defect, without any `catch_unwind`: the owner of
/// the file has a destructor that touches the file (here: seeks to the end to
/// write a footer). The destructor runs during the unwind of the injected
/// panic, hits the poisoned cursor, panics inside a destructor during cleanup
/// and the whole test PROCESS ABORTS (SIGABRT) instead of the triggering code
/// simply panicking. Ignored by default because it kills the test harness:
/// `... --test hunt_c20_1 -- --ignored abort_shape`
#[test]
#[ignore]
fn abort_shape_destructor_touches_file_during_unwind() {
    struct Journal(File);
    impl Drop for Journal {
        fn drop(&mut self) {
            let _ = self.0.seek(SeekFrom::End(0));
        }
    }

    let mut builder = Builder::new();
    builder.fs().corruption_probability(1.0);
    let mut sim = builder.build();
    let _barrier = Barrier::build(Reaction::Panic, |_: &FsCorruption| true);
    sim.client("node", async move {
        create_dir("/data")?;
        let file = OpenOptions::new()
            .read(true)
            .write(true)
            .create(true)
            .open("/data/file.bin")?;
        file.write_all_at(b"0123456789abcdef", 0)?;
        let mut j = Journal(file);
        let mut buf = [0u8; 4];
        j.0.read(&mut buf)?; // injected panic -> unwind -> Journal::drop -> abort
        Ok(())
    });
    // Expected by the statement: the client's code panics (an ordinary,
    // catchable panic out of `run`). Observed: process abort.
    let r = catch_unwind(AssertUnwindSafe(|| sim.run()));
    assert!(r.is_err() || r.unwrap().is_err());
}
