//! C05 hunt, finding 1: a step in which one host's software returns `Err` is
//! abandoned half way. Hosts that were ticked before the failing host keep the
//! tick they received, `Sim::elapsed` and every host after the failing one do
//! not get it. From then on the clocks of the simulation disagree for good.
use std::cell::RefCell;
use std::rc::Rc;
use std::time::Duration;
use turmoil::Builder;

const TICK: Duration = Duration::from_millis(1);

/// Host/client body: records `since_epoch()` at the start of every step it runs in.
async fn ticker(log: Rc<RefCell<Vec<Duration>>>) -> turmoil::Result {
    loop {
        log.borrow_mut().push(turmoil::since_epoch().unwrap());
        tokio::time::sleep(TICK).await;
    }
}

/// `run` fails because a client fails; a new client is registered between the
/// runs; in every later step the old host and the new client must read the same
/// time, and both must agree with `Sim::since_epoch`.
#[test]
fn clocks_disagree_after_a_failed_run() {
    let mut sim = Builder::new().tick_duration(TICK).build();

    let log_a = Rc::new(RefCell::new(vec![]));
    let l = log_a.clone();
    sim.host("a", move || ticker(l.clone()));

    sim.client("failing", async {
        tokio::time::sleep(Duration::from_millis(2)).await;
        Err("boom")?;
        Ok(())
    });

    assert!(sim.run().is_err(), "first run reports the client's error");

    // between runs: a new client
    let log_new = Rc::new(RefCell::new(vec![]));
    let l = log_new.clone();
    sim.client("new", async move {
        let _ = tokio::time::timeout(Duration::from_millis(5), ticker(l)).await;
        Ok(())
    });
    let from = log_a.borrow().len();
    sim.run().unwrap();

    // "a" and "new" both ran in every step of the second run and both sampled
    // the clock at the start of each of those steps.
    let a: Vec<Duration> = log_a.borrow()[from..from + 5].to_vec();
    let new: Vec<Duration> = log_new.borrow()[..5].to_vec();
    assert_eq!(a, new, "host `a` and client `new` read different epoch times in the same steps");
}

/// Same thing seen from the outside: N calls to `step` must leave
/// `Sim::elapsed() == N * tick`, and a host registered at time zero must read
/// the time of the `Sim`.
#[test]
fn failed_step_does_not_advance_the_sim_clock() {
    let mut sim = Builder::new().tick_duration(TICK).build();

    let log_a = Rc::new(RefCell::new(vec![]));
    let l = log_a.clone();
    sim.host("a", move || ticker(l.clone()));
    sim.host("failing", || async {
        tokio::time::sleep(Duration::from_millis(2)).await;
        Err("boom")?;
        Ok(())
    });
    let log_c = Rc::new(RefCell::new(vec![]));
    let l = log_c.clone();
    sim.host("c", move || ticker(l.clone()));

    let mut calls = 0u32;
    let mut errors = 0;
    for _ in 0..6 {
        calls += 1;
        if sim.step().is_err() {
            errors += 1;
        }
    }
    assert_eq!(errors, 1);

    let a_last = *log_a.borrow().last().unwrap();
    let c_last = *log_c.borrow().last().unwrap();
    // both sampled at the start of the 6th step
    assert_eq!(a_last, c_last, "hosts `a` and `c` (both registered at 0) disagree");
    assert_eq!(sim.elapsed(), TICK * calls, "Sim::elapsed after {calls} calls to step");
}
