//! C17 hunt #2: "closing a socket frees its binding" -- a TCP stream that the
//! application closed while the peer keeps its own end open is parked in
//! FinWait2 for ever (no orphan timeout, no egress-count bound), and keeps
//! its (addr, port) binding for ever. A later bind of that port fails with
//! AddrInUse although every socket the application ever had on it is closed.

use std::time::Duration;

use tokio::io::AsyncReadExt;
use turmoil_net::fixture::ClientServer;
use turmoil_net::shim::tokio::net::{TcpListener, TcpStream};

fn run(client_closes_too: bool) -> std::io::Result<()> {
    let (tx, rx) = tokio::sync::oneshot::channel::<std::io::Result<()>>();
    ClientServer::new()
        .server("server", async move {
            let l = TcpListener::bind("0.0.0.0:9000").await.unwrap();
            let (s, _) = l.accept().await.unwrap();
            // "Restart": close everything this application owns on :9000.
            drop(s);
            drop(l);
            // 120 simulated seconds = 120_000 fabric ticks (egress passes):
            // every FIN/ACK that is ever going to be exchanged has been
            // exchanged, and even a real kernel's orphan FIN_WAIT2 timeout
            // (tcp_fin_timeout, 60 s) is long over.
            tokio::time::sleep(Duration::from_secs(120)).await;
            let r = TcpListener::bind("0.0.0.0:9000").await.map(|_| ());
            let _ = tx.send(r);
        })
        .run("client", async move {
            let mut c = TcpStream::connect("server:9000").await.unwrap();
            if client_closes_too {
                let mut b = [0u8; 1];
                assert_eq!(c.read(&mut b).await.unwrap(), 0); // EOF
                drop(c);
                rx.await.unwrap()
            } else {
                // An idle pooled connection: still open, nobody reads it.
                let r = rx.await.unwrap();
                drop(c);
                r
            }
        })
}

#[test]
fn control_rebind_works_when_peer_closed_as_well() {
    run(true).expect("rebind");
}

#[test]
fn closed_stream_must_not_hold_its_port_for_ever() {
    run(false).expect("all sockets on :9000 were closed 120 s ago; bind must succeed");
}
