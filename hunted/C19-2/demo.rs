//! A verdict function that touches any turmoil_net API (DNS lookup, rule
//! install/removal, netstat, a socket) panics with a RefCell double borrow:
//! `EnterGuard::evaluate` keeps the thread-local Net mutably borrowed while
//! user rule code runs.
use std::cell::RefCell;
use std::rc::Rc;
use std::time::Duration;

use turmoil_net::fixture::ClientServer;
use turmoil_net::shim::tokio::net::UdpSocket;
use turmoil_net::{lookup_host, rule, Packet, RuleGuard, Verdict};

async fn echo_server() {
    let s = UdpSocket::bind("0.0.0.0:9000").await.unwrap();
    let mut b = [0u8; 8];
    loop {
        let (n, from) = s.recv_from(&mut b).await.unwrap();
        s.send_to(&b[..n], from).await.unwrap();
    }
}

/// One-way partition written with the by-name lookup inside the closure.
#[test]
fn rule_resolving_a_hostname_per_packet() {
    let echoed = ClientServer::new()
        .server("server", echo_server())
        .server("other", async {})
        .run("client", async {
            // Drop only what goes to "other"; everything else passes.
            let _g = rule(|p: &Packet| {
                if Some(p.dst) == lookup_host("other") {
                    Verdict::Drop
                } else {
                    Verdict::Pass
                }
            });
            let c = UdpSocket::bind("0.0.0.0:0").await.unwrap();
            c.send_to(b"hi", "server:9000").await.unwrap();
            let mut b = [0u8; 8];
            tokio::time::timeout(Duration::from_millis(20), c.recv_from(&mut b))
                .await
                .is_ok()
        });
    assert!(echoed);
}

/// "Drop the first packet, then heal": the rule lifts the partition by
/// releasing another rule's guard from inside on_packet.
#[test]
fn rule_releasing_another_rules_guard() {
    let echoed = ClientServer::new()
        .server("server", echo_server())
        .run("client", async {
            let slot: Rc<RefCell<Option<RuleGuard>>> = Rc::new(RefCell::new(None));
            let s2 = slot.clone();
            // rule 1: on the first packet, heal the partition (rule 2) and let it through.
            let _g1 = rule(move |_: &Packet| {
                s2.borrow_mut().take();
                Verdict::Deliver(Duration::ZERO)
            });
            *slot.borrow_mut() = Some(rule(|_: &Packet| Verdict::Drop));
            let c = UdpSocket::bind("0.0.0.0:0").await.unwrap();
            c.send_to(b"hi", "server:9000").await.unwrap();
            let mut b = [0u8; 8];
            tokio::time::timeout(Duration::from_millis(20), c.recv_from(&mut b))
                .await
                .is_ok()
        });
    assert!(echoed);
}
