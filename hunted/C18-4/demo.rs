//! C18 hunt #4: a zero-length Read / Write SQE with a null buffer pointer is
//! undefined behaviour inside the simulated ring (process abort in a debug
//! build) instead of completing with result 0.
//!
//! `read(fd, NULL, 0)` / `write(fd, NULL, 0)` are valid: the real kernel and
//! the real `io-uring` crate accept them and complete them with 0, and the
//! same zero-length operation through the synchronous file API
//! (`write_at(&[], 0)`, `read_at(&mut [], 0)`) returns Ok(0). The simulation
//! builds a Rust slice from the raw pointer unconditionally
//! (`slice::from_raw_parts{,_mut}(ptr, len)`), which requires a non-null
//! pointer even for `len == 0`.

use std::os::fd::AsRawFd;
use std::os::unix::fs::FileExt;
use turmoil::fs::shim::std::fs::{create_dir_all, OpenOptions};
use turmoil::io_uring::{opcode, types, IoUring};
use turmoil::{Builder, Result};

#[test]
fn zero_length_ops_with_null_buffer_complete_with_zero() -> Result {
    let mut sim = Builder::new().build();
    sim.client("c", async {
        create_dir_all("/d")?;
        let file = OpenOptions::new()
            .read(true)
            .write(true)
            .create(true)
            .open("/d/f")?;
        file.write_at(b"abc", 0)?;

        // Synchronous API: zero-length operations succeed with 0.
        assert_eq!(file.write_at(&[], 0)?, 0);
        assert_eq!(file.read_at(&mut [], 0)?, 0);

        let fd = types::Fd(file.as_raw_fd());
        let mut ring = IoUring::new(4)?;
        let w = opcode::Write::new(fd, std::ptr::null(), 0)
            .build()
            .user_data(1);
        let r = opcode::Read::new(fd, std::ptr::null_mut(), 0)
            .build()
            .user_data(2);
        unsafe {
            ring.submission().push(&w).expect("push w");
            ring.submission().push(&r).expect("push r");
        }
        ring.submit()?;

        let mut cq = ring.completion();
        cq.sync();
        let mut seen = Vec::new();
        for cqe in &mut cq {
            assert_eq!(cqe.result(), 0, "zero-length op ud={}", cqe.user_data());
            seen.push(cqe.user_data());
        }
        seen.sort_unstable();
        assert_eq!(seen, vec![1, 2]);
        Ok(())
    });
    sim.run()
}
