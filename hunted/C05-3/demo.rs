//! C05 hunt, finding 3: tick durations at / beyond the range of tokio's timer
//! wheel (2^36 ms = 795.36 days). `Rt::tick` drives a step with one
//! `sleep(tick)`. From roughly 785 days upwards that sleep lands in the top
//! level of the wheel in the slot of "now", one rotation later, and tokio's
//! `next_expiration` then skips every nearer timer in the top level (and, above
//! 2^36 ms, mis-computes the deadline altogether).
use std::cell::{Cell, RefCell};
use std::rc::Rc;
use std::time::Duration;
use turmoil::Builder;

const DAY: Duration = Duration::from_secs(86400);

/// tick = 795 days: still below tokio's documented maximum sleep (2^36 - 2 ms).
/// A client sleeps 100 days in a loop. Its wake-ups must be 0, 100 d, 200 d, ...
#[test]
fn tick_795_days_host_timer_never_fires_again() {
    let tick = DAY * 795;
    let mut sim = Builder::new()
        .tick_duration(tick)
        .simulation_duration(tick * 100)
        .build();
    let seen = Rc::new(RefCell::new(vec![]));
    let s = seen.clone();
    sim.client("c", async move {
        loop {
            s.borrow_mut().push(turmoil::elapsed());
            tokio::time::sleep(DAY * 100).await;
        }
    });
    for k in 1..=4u32 {
        sim.step().unwrap();
        assert_eq!(sim.elapsed(), tick * k);
    }
    let want: Vec<Duration> = (0..32).map(|i| DAY * 100 * i).collect(); // 0 ..= 3100 d < 3180 d
    assert_eq!(*seen.borrow(), want);
}

/// tick = 3 years, client sleeps 10 years: the client's runtime clock runs away
/// from the step window, and `elapsed()` stops agreeing with tokio's `Instant`.
#[test]
fn tick_3_years_host_sees_time_outside_its_step() {
    let tick = DAY * 365 * 3;
    let mut sim = Builder::new()
        .tick_duration(tick)
        .simulation_duration(tick * 100)
        .build();
    let step = Rc::new(Cell::new(0u32));
    let bad = Rc::new(RefCell::new(vec![]));
    let (st, b) = (step.clone(), bad.clone());
    sim.client("c", async move {
        let t0 = tokio::time::Instant::now();
        loop {
            let (e, i, k) = (turmoil::elapsed(), t0.elapsed(), st.get());
            if e < tick * k || e > tick * (k + 1) {
                b.borrow_mut().push(format!("step {k}: elapsed() = {e:?} outside [{:?}, {:?}]", tick * k, tick * (k + 1)));
            }
            if e != i {
                b.borrow_mut().push(format!("step {k}: elapsed() = {e:?} but Instant says {i:?}"));
            }
            tokio::time::sleep(DAY * 3650).await;
        }
    });
    for _ in 0..4 {
        sim.step().unwrap();
        step.set(step.get() + 1);
    }
    assert!(bad.borrow().is_empty(), "{:#?}", bad.borrow());
}

/// Same mechanism without a huge tick (tick = 1 day): one task of the host
/// sleeps 795 days + 8 h (inside tokio's documented limit). In the step that
/// crosses 2^30 ms the host's runtime jumps ~784 days ahead.
/// (Root cause entirely inside tokio's wheel; kept for reference.)
#[test]
fn one_day_tick_near_max_host_sleep() {
    let mut sim = Builder::new()
        .tick_duration(DAY)
        .simulation_duration(DAY * 5000)
        .build();
    let step = Rc::new(Cell::new(0u32));
    let bad = Rc::new(RefCell::new(vec![]));
    let (st, b) = (step.clone(), bad.clone());
    sim.client("c", async move {
        tokio::time::sleep(DAY).await;
        let x = tokio::task::spawn_local(async move {
            tokio::time::sleep(DAY * 795 + Duration::from_secs(8 * 3600)).await;
            let (e, k) = (turmoil::elapsed(), st.get());
            if e < DAY * k || e > DAY * (k + 1) {
                b.borrow_mut().push(format!("step {k}: elapsed() = {e:?}"));
            }
        });
        x.await?;
        Ok(())
    });
    while !sim.step().unwrap() {
        step.set(step.get() + 1);
    }
    assert!(bad.borrow().is_empty(), "{:#?}", bad.borrow());
}
