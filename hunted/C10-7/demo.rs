//! C10 hunt 7: rename onto an existing file that still has unsynced writes,
//! then sync_dir: the replaced file's bytes come back under the name.
#![cfg(feature = "unstable-fs")]
use std::os::unix::fs::FileExt;
use turmoil::fs::shim::std::fs::{read, rename, sync_dir, write, File};
use turmoil::{Builder, Result};

#[test]
fn replaced_files_pending_writes_resurface_after_sync_dir() -> Result {
    let mut sim = Builder::new().build();
    sim.client("c", async {
        let a = File::create("/a")?;
        a.write_all_at(b"AA", 0)?;
        a.sync_all()?; // source has no unsynced data
        drop(a);
        write("/b", b"BBBBBBBB")?; // destination has unsynced data
        rename("/a", "/b")?; // replaces /b
        assert_eq!(read("/b")?, b"AA");
        sync_dir("/")?; // must not change anything observable
        assert_eq!(read("/b")?, b"AA", "after sync_dir");
        Ok(())
    });
    sim.run()
}
