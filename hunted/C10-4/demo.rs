//! C10 hunt 4: create_dir / remove_dir / rename report every failure as
//! ErrorKind::Other instead of the POSIX kind (EEXIST, ENOENT, ENOTEMPTY).
#![cfg(feature = "unstable-fs")]
use std::io::ErrorKind;
use turmoil::fs::shim::std::fs::{create_dir, remove_dir, rename, write};
use turmoil::{Builder, Result};

#[test]
fn directory_ops_error_kinds() -> Result {
    let mut sim = Builder::new().build();
    sim.client("c", async {
        create_dir("/d")?;
        let mut bad = Vec::new();
        let mut check = |what: &str, got: ErrorKind, want: ErrorKind| {
            if got != want {
                bad.push(format!("{what}: got {got:?}, want {want:?}"));
            }
        };
        check(
            "create_dir on existing dir",
            create_dir("/d").unwrap_err().kind(),
            ErrorKind::AlreadyExists,
        );
        check(
            "create_dir with missing parent",
            create_dir("/x/y").unwrap_err().kind(),
            ErrorKind::NotFound,
        );
        check(
            "remove_dir on missing dir",
            remove_dir("/nope").unwrap_err().kind(),
            ErrorKind::NotFound,
        );
        check(
            "rename of missing source",
            rename("/nope", "/x").unwrap_err().kind(),
            ErrorKind::NotFound,
        );
        write("/d/f", b"x")?;
        check(
            "remove_dir on non-empty dir",
            remove_dir("/d").unwrap_err().kind(),
            ErrorKind::DirectoryNotEmpty,
        );
        assert!(bad.is_empty(), "{bad:#?}");
        Ok(())
    });
    sim.run()
}
