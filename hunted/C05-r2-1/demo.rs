//! C05 hunt: destructors of a host's tasks, run by `Sim::crash` / `Sim::bounce`,
//! read tokio's clock (`tokio::time::Instant::now()`) as the machine's wall
//! clock instead of the host's virtual clock.
//!
//! Everywhere inside a step the identity
//!     Instant::now() - t0  ==  turmoil::elapsed() - e0
//! holds (that is how `elapsed()` is computed). In a destructor run by a crash
//! the right-hand side is the accumulated virtual time (exact), the left-hand
//! side is a wall-clock reading: `Rt::cancel_tasks` drops the old runtime
//! first and the `LocalSet` (which owns the host's software and everything it
//! spawned with `spawn_local`) afterwards, outside any runtime context, where
//! tokio's `Instant::now()` falls back to `std::time::Instant::now()`.
//! The reading is machine dependent and usually *earlier* than Instants the
//! host already observed (virtual time runs ahead of real time).
use std::cell::RefCell;
use std::rc::Rc;
use std::time::Duration;

use tokio::time::Instant;
use turmoil::Builder;

type Log = Rc<RefCell<Vec<(&'static str, Duration, Duration, bool)>>>;

thread_local! {
    /// The latest `Instant` the host's code has seen inside a step.
    static LAST_SEEN: std::cell::Cell<Option<Instant>> = const { std::cell::Cell::new(None) };
}

struct Guard {
    name: &'static str,
    t0: Instant,
    e0: Duration,
    log: Log,
}

impl Guard {
    fn new(name: &'static str, log: Log) -> Self {
        Guard {
            name,
            t0: Instant::now(),
            e0: turmoil::elapsed(),
            log,
        }
    }
    fn sample(&self) -> (Duration, Duration) {
        (
            Instant::now().saturating_duration_since(self.t0),
            turmoil::elapsed() - self.e0,
        )
    }
}

impl Drop for Guard {
    fn drop(&mut self) {
        let (by_instant, by_turmoil) = self.sample();
        // tokio's Instant is documented to be monotone
        let went_backwards = Instant::now() < LAST_SEEN.get().unwrap();
        self.log
            .borrow_mut()
            .push((self.name, by_instant, by_turmoil, went_backwards));
    }
}

fn run(bounce: bool) {
    let tick = Duration::from_millis(5);
    let steps = 400u32;
    let mut sim = Builder::new().tick_duration(tick).build();
    let log: Log = Rc::new(RefCell::new(Vec::new()));

    let l = log.clone();
    sim.host("h", move || {
        let l = l.clone();
        async move {
            // guard owned by the host's main future
            let g = Guard::new("main", l.clone());
            // guard owned by a second task of the host
            let l2 = l.clone();
            tokio::task::spawn_local(async move {
                let _g = Guard::new("task", l2);
                std::future::pending::<()>().await;
            });
            loop {
                tokio::time::sleep(Duration::from_millis(3)).await;
                // inside steps the two clocks agree, always
                let (a, b) = g.sample();
                assert_eq!(a, b);
                LAST_SEEN.set(Some(Instant::now()));
            }
        }
    });

    for _ in 0..steps {
        sim.step().unwrap();
    }
    assert_eq!(sim.elapsed(), tick * steps);

    if bounce {
        sim.bounce("h");
    } else {
        sim.crash("h");
    }

    let log = log.borrow();
    assert_eq!(log.len(), 2, "both destructors ran");
    for (name, by_instant, by_turmoil, went_backwards) in log.iter() {
        println!(
            "{name}: Instant says {by_instant:?}, turmoil::elapsed says {by_turmoil:?}, Instant went backwards: {went_backwards}"
        );
        // the host clock stands at the end of step 400: 2 s after the guards
        // were created (first poll, host time 0)
        assert_eq!(*by_turmoil, tick * steps);
        assert_eq!(
            *by_instant,
            tick * steps,
            "{name}: tokio's Instant::now() in a destructor run by crash/bounce is not the host's virtual time"
        );
    }
}

#[test]
fn instant_in_destructor_run_by_crash() {
    run(false);
}

#[test]
fn instant_in_destructor_run_by_bounce() {
    run(true);
}
