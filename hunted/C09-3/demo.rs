//! C09 violation 3: an IPv4 socket bound to 0.0.0.0 receives a datagram that
//! was addressed to the IPv6 loopback address [::1] (and an IPv4 socket is
//! allowed to send it).
//!
//! `send_to` documents "This will return an error when the IP version of the
//! local socket does not match that returned from ToSocketAddrs", but
//! `UdpSocket::send` never compares the families: for a loopback destination it
//! overwrites the source ip with the destination ip (`src.set_ip(dst.ip())`,
//! turning the IPv4 source into `[::1]:port`) and loops the datagram back.
//! On delivery `host::matches` accepts any destination ip for a wildcard bind
//! as long as the port is equal, so `0.0.0.0:9000` swallows `[::1]:9000` and
//! reports an IPv6 peer on an IPv4 socket.
use std::{
    net::{Ipv4Addr, Ipv6Addr},
    time::Duration,
};

use tokio::time::timeout;
use turmoil::{net::UdpSocket, Builder, IpVersion, Result};

#[test]
fn v4_wildcard_socket_receives_datagram_addressed_to_v6_loopback() -> Result {
    let mut sim = Builder::new().ip_version(IpVersion::V4).build();

    sim.client("a", async move {
        let rx = UdpSocket::bind((Ipv4Addr::UNSPECIFIED, 9000)).await?;
        let tx = UdpSocket::bind((Ipv4Addr::UNSPECIFIED, 9001)).await?;

        let sent = tx.send_to(b"x", (Ipv6Addr::LOCALHOST, 9000)).await;

        let mut buf = [0u8; 4];
        let got = timeout(Duration::from_secs(1), rx.recv_from(&mut buf)).await;

        assert!(
            got.is_err(),
            "the IPv4 socket 0.0.0.0:9000 received a datagram addressed to [::1]:9000: {got:?} \
             (send_to on the IPv4 socket returned {sent:?})"
        );
        Ok(())
    });
    sim.client("b", async move { Ok(()) });

    sim.run()
}
