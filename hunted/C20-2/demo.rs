//! C20 hunt #2: "each trigger whose value matches a live barrier's condition
//! is reported to that barrier exactly once ... a Panic barrier panics the
//! triggering code".
//!
//! A trigger that matches a live `Reaction::Panic` barrier is never reported
//! to the barrier: both `trigger()` and `trigger_noop()` panic *before* they
//! send the value to the barrier's channel, so `Barrier::wait()` on a Panic
//! barrier never resolves, no matter how many triggers matched it.
#![cfg(feature = "unstable-barriers")]

use std::cell::Cell;
use std::rc::Rc;

use tokio_test::task;
use turmoil::barriers::{trigger, trigger_noop, Barrier, Reaction};
use turmoil::Builder;

#[derive(Debug, PartialEq, Eq, Clone)]
struct Ev(u32);

/// Async trigger from a simulated host.
#[test]
fn panic_barrier_is_never_told_about_the_trigger_async() {
    let mut sim = Builder::new().build();
    let mut barrier = Barrier::build(Reaction::Panic, |e: &Ev| e.0 == 7);

    let reached = Rc::new(Cell::new(0u32));
    let r = reached.clone();
    sim.host("server", move || {
        let r = r.clone();
        async move {
            r.set(1);
            trigger(Ev(7)).await;
            r.set(2);
            Ok(())
        }
    });
    // The repo builds with `--cfg tokio_unstable`, so the injected panic is
    // forwarded out of `Sim::step` (either as a panic or as an Err).
    let res = std::panic::catch_unwind(std::panic::AssertUnwindSafe(|| sim.step()));
    assert!(
        !matches!(res, Ok(Ok(_))),
        "Panic barrier panics the triggering code"
    );
    assert_eq!(reached.get(), 1, "trigger matched the live barrier, code panicked");

    // The trigger matched this live barrier, so it must have been reported to it.
    let mut w = task::spawn(barrier.wait());
    let got = w.poll();
    assert!(
        got.is_ready(),
        "a trigger matching a live Panic barrier was not reported to the barrier"
    );
}

/// Sync trigger.
#[test]
fn panic_barrier_is_never_told_about_the_trigger_sync() {
    let mut barrier = Barrier::build(Reaction::Panic, |e: &Ev| e.0 == 7);
    for _ in 0..3 {
        let r = std::panic::catch_unwind(|| trigger_noop(Ev(7)));
        assert!(r.is_err());
    }
    let mut w = task::spawn(barrier.wait());
    assert!(
        w.poll().is_ready(),
        "three triggers matched the live Panic barrier, none was reported"
    );
}
