//! C16 hunt #1: a reordered (stale) ACK re-opens the send window.
//!
//! The sender copies `window` out of *every* segment that carries ACK,
//! without checking that the segment is newer than the one the current
//! window came from (RFC 793 SND.WL1 / SND.WL2). If an older ACK that
//! advertised a larger window is overtaken by a newer ACK that advertised
//! a zero window, the late arrival of the old one makes the sender push
//! bytes past the right edge the peer last advertised.
//!
//! Public API only: ClientServer fixture, KernelConfig caps, rule().

use std::cell::RefCell;
use std::rc::Rc;
use std::time::Duration;

use tokio::io::{AsyncReadExt, AsyncWriteExt};
use turmoil_net::fixture::ClientServer;
use turmoil_net::shim::tokio::net::{TcpListener, TcpStream};
use turmoil_net::{netstat, rule, KernelConfig, Packet, Transport, Verdict};

const RECV_CAP: usize = 1000;

#[test]
fn control_in_order_delivery_stays_inside_the_window() {
    reopen(false);
}

#[test]
fn stale_ack_must_not_reopen_the_window() {
    reopen(true);
}

fn reopen(reorder: bool) {
    let cfg = KernelConfig::default()
        .recv_buf_cap(RECV_CAP)
        .send_buf_cap(8000);

    let violations: Rc<RefCell<Vec<String>>> = Rc::new(RefCell::new(Vec::new()));
    let log: Rc<RefCell<Vec<String>>> = Rc::new(RefCell::new(Vec::new()));
    let v2 = violations.clone();
    let l2 = log.clone();

    ClientServer::with_config(cfg)
        .server("server", async move {
            let l = TcpListener::bind("0.0.0.0:9000").await.unwrap();
            let (_sock, _) = l.accept().await.unwrap();
            // Never read: the receive buffer fills and the window closes.
            std::future::pending::<()>().await;
        })
        .run("client", async move {
            // Wire observer + reorderer. Rules see every cross-host
            // packet in emission order.
            //  * server -> client: remember the most recent (ack, window)
            //    the server put on the wire; delay exactly one ACK (the
            //    first one advertising 499) by 6 ms so that the next ACK
            //    (window 0) overtakes it.
            //  * client -> server data: the segment's last byte must not
            //    lie beyond ack + window as last advertised by the server.
            let mut adv: Option<(u32, u16)> = None;
            let mut delayed_one = false;
            rule(move |pkt: &Packet| {
                let Transport::Tcp(s) = &pkt.payload else {
                    return Verdict::Pass;
                };
                if s.src_port == 9000 {
                    if s.flags.ack {
                        adv = Some((s.ack, s.window));
                    }
                    l2.borrow_mut().push(format!(
                        "S->C ack={} win={} syn={}",
                        s.ack, s.window, s.flags.syn
                    ));
                    if reorder && !delayed_one && !s.flags.syn && s.window == 499 {
                        delayed_one = true;
                        l2.borrow_mut().push("   (delayed 6ms)".into());
                        return Verdict::Deliver(Duration::from_millis(6));
                    }
                } else if s.dst_port == 9000 && !s.payload.is_empty() {
                    let end = s.seq.wrapping_add(s.payload.len() as u32);
                    l2.borrow_mut()
                        .push(format!("C->S seq={} len={}", s.seq, s.payload.len()));
                    if let Some((ack, win)) = adv {
                        let edge = ack.wrapping_add(win as u32);
                        if (end.wrapping_sub(edge) as i32) > 0 {
                            v2.borrow_mut().push(format!(
                                "data seq={} len={} ends {} bytes past the right edge \
                                 (peer last advertised ack={} window={})",
                                s.seq,
                                s.payload.len(),
                                end.wrapping_sub(edge),
                                ack,
                                win
                            ));
                        }
                    }
                }
                Verdict::Pass
            })
            .forget();

            let mut c = TcpStream::connect("server:9000").await.unwrap();

            // Phase 0: learn the server's real window (SYN-ACK carried a
            // placeholder). 1 byte -> ACK with window 999.
            c.write_all(&[0u8; 1]).await.unwrap();
            tokio::time::sleep(Duration::from_millis(5)).await;

            // Phase 1: 500 bytes, then one tick later 499 more. The server
            // answers ACK_a (window 499) and then ACK_b (window 0).
            c.write_all(&[1u8; 500]).await.unwrap();
            tokio::time::sleep(Duration::from_millis(1)).await;
            c.write_all(&[2u8; 499]).await.unwrap();
            // More data queued behind the closed window.
            c.write_all(&[3u8; 2000]).await.unwrap();

            tokio::time::sleep(Duration::from_millis(30)).await;

            // Receive cap is respected (the receiver drops the excess) ...
            let ns = netstat("server");
            for e in &ns.entries {
                assert!(e.recv_q <= RECV_CAP, "recv_q {} > cap", e.recv_q);
            }
            // ... but the sender transmitted outside the advertised window.
            let v = violations.borrow();
            assert!(
                v.is_empty(),
                "sender exceeded the peer's last advertised window:\n{}\n-- wire log --\n{}",
                v.join("\n"),
                log.borrow().join("\n")
            );
        });
}

/// Same root cause, opposite direction: a stale ACK that advertised a
/// *zero* window arrives after the window update that re-opened it. The
/// sender falls back to window 0 although the peer's buffer is empty;
/// with nothing in flight nothing ever elicits a fresh ACK, so the next
/// write is accepted into the send buffer and never transmitted.
#[test]
fn stale_zero_window_ack_must_not_close_the_window() {
    let cfg = KernelConfig::default()
        .recv_buf_cap(RECV_CAP)
        .send_buf_cap(8000);

    ClientServer::with_config(cfg)
        .server("server", async move {
            let l = TcpListener::bind("0.0.0.0:9000").await.unwrap();
            let (mut sock, _) = l.accept().await.unwrap();
            let mut buf = vec![0u8; 2 * RECV_CAP];
            // Let the first 1000 bytes fill the buffer completely (ACK
            // with window 0), then drain them in one read (window update
            // 1000), then wait for the second kilobyte.
            tokio::time::sleep(Duration::from_millis(4)).await;
            sock.read_exact(&mut buf[..RECV_CAP]).await.unwrap();
            sock.read_exact(&mut buf[RECV_CAP..]).await.unwrap();
            sock.write_all(b"k").await.unwrap();
            std::future::pending::<()>().await;
        })
        .run("client", async move {
            let mut delayed_one = false;
            rule(move |pkt: &Packet| {
                let Transport::Tcp(s) = &pkt.payload else {
                    return Verdict::Pass;
                };
                // Delay the first zero-window ACK from the server.
                if s.src_port == 9000 && !s.flags.syn && s.window == 0 && !delayed_one {
                    delayed_one = true;
                    return Verdict::Deliver(Duration::from_millis(6));
                }
                Verdict::Pass
            })
            .forget();

            let mut c = TcpStream::connect("server:9000").await.unwrap();
            c.write_all(&[1u8; RECV_CAP]).await.unwrap();
            // By now: window update (1000) arrived, then the stale
            // zero-window ACK.
            tokio::time::sleep(Duration::from_millis(20)).await;
            c.write_all(&[2u8; RECV_CAP]).await.unwrap();
            let mut k = [0u8; 1];
            let r = tokio::time::timeout(Duration::from_secs(30), c.read_exact(&mut k)).await;
            assert!(
                r.is_ok(),
                "second kilobyte never transmitted: sender stuck on a stale zero window \n{}\n{}",
                netstat("client"),
                netstat("server"),
            );
        });
}
