//! C06 hunt, candidate 2: a finished connection whose `TcpStream` object the
//! server application still holds keeps its `Closed` TCB in the kernel's
//! 4-tuple index. When the client's ephemeral port allocator wraps (16 384
//! ports, Linux default range) and hands the same source port out again, the
//! new SYN is demultiplexed to that dead TCB - which ignores all traffic -
//! instead of to the listener. No packet is dropped, delayed or reordered,
//! yet `connect` burns its whole SYN retransmit budget and fails `TimedOut`.

use std::time::Duration;

use tokio::io::{AsyncReadExt, AsyncWriteExt};
use turmoil_net::fixture::ClientServer;
use turmoil_net::shim::tokio::net::{TcpListener, TcpStream};

const PORTS: u32 = 16_384; // 49152..=65535

async fn one_exchange() -> std::io::Result<(Vec<u8>, u16)> {
    let mut c = TcpStream::connect("server:9000").await?;
    let port = c.local_addr()?.port();
    c.write_all(b"ping").await?;
    c.shutdown().await?;
    let mut back = Vec::new();
    c.read_to_end(&mut back).await?;
    Ok((back, port))
}

#[test]
fn closed_tcb_still_held_by_app_swallows_syn_after_port_wrap() {
    let r: Result<(), String> = ClientServer::new()
        .server("server", async move {
            let l = TcpListener::bind("0.0.0.0:9000").await.unwrap();
            // The very first connection is kept around after it is completely
            // finished (e.g. parked in a pool / list that is cleaned up later).
            let mut parked = None;
            loop {
                let (mut s, _) = l.accept().await.unwrap();
                let mut got = Vec::new();
                s.read_to_end(&mut got).await.unwrap();
                s.write_all(&got).await.unwrap();
                s.shutdown().await.unwrap();
                if parked.is_none() {
                    parked = Some(s);
                }
            }
        })
        .run("client", async move {
            let mut first_port = 0;
            for i in 0..=PORTS {
                let res = tokio::time::timeout(Duration::from_secs(5), one_exchange()).await;
                match res {
                    Ok(Ok((b, port))) if b == b"ping" => {
                        if i == 0 {
                            first_port = port;
                        }
                    }
                    other => {
                        return Err(format!(
                            "connection #{i} (first connection used port {first_port}): {other:?}"
                        ))
                    }
                }
            }
            Ok(())
        });
    assert_eq!(r, Ok(()), "a connection failed although no packet was ever lost");
}
