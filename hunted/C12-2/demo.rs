//! H2: IPv6 destination written with a zone (scope id), e.g. "[fe80::1%1]:1738".
//! turmoil's IPv6 hosts live in the link-local subnet fe80::/64, where zones are
//! the normal way to write an address.
use std::net::{Ipv6Addr, SocketAddr, SocketAddrV6};
use turmoil::{
    net::{TcpListener, TcpStream},
    Builder, IpVersion, Result,
};

const PORT: u16 = 1738;

#[test]
fn ipv6_zone_remote() -> Result {
    let mut sim = Builder::new().ip_version(IpVersion::V6).build();

    sim.host("server", || async {
        let listener = TcpListener::bind((Ipv6Addr::UNSPECIFIED, PORT)).await?;
        loop {
            let (s, peer) = listener.accept().await?;
            assert_eq!(s.peer_addr()?, peer);
            tokio::spawn(async move {
                let _s = s;
                std::future::pending::<()>().await;
            });
        }
    });

    sim.client("client", async {
        let ip = match turmoil::lookup("server") {
            std::net::IpAddr::V6(ip) => ip,
            _ => unreachable!(),
        };
        // same host address, written with a zone
        let dst = SocketAddr::V6(SocketAddrV6::new(ip, PORT, 0, 1));
        let s = TcpStream::connect(dst).await?;
        assert_eq!(s.peer_addr()?.ip(), std::net::IpAddr::V6(ip));
        Ok(())
    });

    sim.run()
}

#[test]
fn ipv6_zone_loopback() -> Result {
    let mut sim = Builder::new().ip_version(IpVersion::V6).build();

    sim.client("client", async {
        let listener = TcpListener::bind((Ipv6Addr::UNSPECIFIED, PORT)).await?;
        tokio::spawn(async move {
            loop {
                let (s, _) = listener.accept().await.unwrap();
                tokio::spawn(async move {
                    let _s = s;
                    std::future::pending::<()>().await;
                });
            }
        });
        let dst: SocketAddr = "[::1%1]:1738".parse().unwrap();
        let _s = TcpStream::connect(dst).await?;
        Ok(())
    });

    sim.run()
}

/// Same defect from the listener side: the wildcard bind carries a zone, the
/// connector dials the plain address.
#[test]
fn ipv6_zone_on_wildcard_bind() -> Result {
    let mut sim = Builder::new().ip_version(IpVersion::V6).build();

    sim.host("server", || async {
        let bind: SocketAddr = "[::%1]:1738".parse().unwrap();
        assert!(bind.ip().is_unspecified());
        let listener = TcpListener::bind(bind).await?;
        loop {
            let (s, _) = listener.accept().await?;
            tokio::spawn(async move {
                let _s = s;
                std::future::pending::<()>().await;
            });
        }
    });

    sim.client("client", async {
        let _s = TcpStream::connect(("server", PORT)).await?;
        Ok(())
    });

    sim.run()
}
