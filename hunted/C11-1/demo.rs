//! C11: `Sim::run` must return an error once the configured simulation
//! duration is exceeded with a client still unfinished.
//!
//! With a tick that is not a whole number of milliseconds, every host runtime
//! advances its clock by the tick rounded UP to the next millisecond
//! (`Rt::tick` does `sleep(tick)` on a paused tokio runtime, whose timer wheel
//! has 1 ms resolution and auto-advances to the rounded-up deadline), while
//! `Sim::elapsed` - the value compared against `simulation_duration` - only
//! grows by the nominal tick. Host time therefore runs up to 1ms/tick times
//! faster than the time the duration is checked against, and a client that
//! needs several times the configured duration still makes `run` return Ok.
use std::cell::Cell;
use std::rc::Rc;
use std::time::Duration;
use turmoil::Builder;

/// One client that needs `work` of virtual time. Returns (run() is Ok,
/// sim.elapsed() afterwards, virtual time the client itself measured).
fn run_case(tick: Duration, duration: Duration, work: Duration) -> (bool, Duration, Duration) {
    let mut sim = Builder::new()
        .tick_duration(tick)
        .simulation_duration(duration)
        .build();
    let measured = Rc::new(Cell::new(Duration::ZERO));
    let m = measured.clone();
    sim.client("client", async move {
        let start = tokio::time::Instant::now();
        tokio::time::sleep(work).await;
        m.set(start.elapsed());
        Ok(())
    });
    let ok = sim.run().is_ok();
    (ok, sim.elapsed(), measured.get())
}

#[test]
fn client_needing_5x_the_duration_must_time_out() {
    let duration = Duration::from_millis(10);
    let work = Duration::from_millis(50);

    // Reference: whole-millisecond tick. The client is (correctly) timed out.
    let (ok, elapsed, _) = run_case(Duration::from_millis(1), duration, work);
    assert!(!ok, "1ms tick: expected a timeout, elapsed={elapsed:?}");

    // Same scenario, 100us tick: must time out as well.
    let (ok, elapsed, measured) = run_case(Duration::from_micros(100), duration, work);
    assert!(
        !ok,
        "simulation_duration={duration:?}, client needed {work:?} (measured {measured:?} on its \
         own clock), yet Sim::run returned Ok with sim.elapsed()={elapsed:?}"
    );
}

#[test]
fn tick_above_one_ms_but_fractional() {
    // tick = 1.5ms -> each step advances the hosts by 2ms. duration = 30ms is
    // crossed in step 21 (30ms -> 31.5ms). A client needing 39ms is unfinished
    // at that point in any reading, but run() returns Ok after 20 steps.
    let (ok, elapsed, measured) = run_case(
        Duration::from_micros(1500),
        Duration::from_millis(30),
        Duration::from_millis(39),
    );
    assert!(
        !ok,
        "duration=30ms, client needed 39ms (measured {measured:?}), run() returned Ok at sim.elapsed()={elapsed:?}"
    );
}
