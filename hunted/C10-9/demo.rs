//! C10 hunt 9: an io_uring Write on a descriptor opened read-only succeeds
//! and modifies the file (the std shim refuses the same write; POSIX: EBADF).
#![cfg(all(feature = "unstable-fs", feature = "unstable-io_uring"))]
use std::os::fd::AsRawFd;
use std::os::unix::fs::FileExt;
use turmoil::fs::shim::std::fs::{read, write, File};
use turmoil::io_uring::{opcode, types, IoUring};
use turmoil::{Builder, Result};

#[test]
fn ring_write_through_read_only_descriptor() -> Result {
    let mut sim = Builder::new().build();
    sim.client("c", async {
        write("/f", b"abcd")?;
        let f = File::open("/f")?; // O_RDONLY
        assert!(f.write_at(b"Z", 0).is_err()); // std front-end refuses
        let fd = types::Fd(f.as_raw_fd());
        let mut ring = IoUring::new(4).unwrap();
        let w = b"ZZ".to_vec();
        let e = opcode::Write::new(fd, w.as_ptr(), 2).offset(0).build().user_data(1);
        unsafe { ring.submission().push(&e).unwrap() };
        ring.submit().unwrap();
        let mut cq = ring.completion();
        cq.sync();
        let res = cq.next().expect("cqe").result();
        assert!(res < 0, "ring write on an O_RDONLY fd returned {res}");
        assert_eq!(read("/f")?, b"abcd");
        Ok(())
    });
    sim.run()
}
