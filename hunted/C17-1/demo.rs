//! C17 hunt #1: a dead (reset, state Closed) TCP connection that the server
//! application has not dropped yet keeps its 4-tuple in the connection index
//! and swallows a fresh SYN for that 4-tuple, although a live listener is
//! bound on the destination port. The client only needs its ephemeral port
//! allocator to wrap around once.

use std::time::Duration;

use tokio::io::{AsyncReadExt, AsyncWriteExt};
use turmoil_net::fixture::ClientServer;
use turmoil_net::shim::tokio::net::{TcpListener, TcpStream, UdpSocket};

/// Advance the (shared) ephemeral cursor of the current host until the next
/// allocation will hand out `want` again.
async fn wrap_allocator_to(want: u16) {
    let before = if want == 49152 { 65535 } else { want - 1 };
    let mut n = 0u32;
    loop {
        let u = UdpSocket::bind("0.0.0.0:0").await.unwrap();
        let p = u.local_addr().unwrap().port();
        drop(u);
        n += 1;
        assert!(n <= 70_000, "allocator never came back to {want}");
        if p == before {
            return;
        }
    }
}

fn run(server_drops_dead_stream: bool) -> std::io::Result<(u16, u16, Vec<u8>)> {
    ClientServer::new()
        .server("server", async move {
            let l = TcpListener::bind("0.0.0.0:9000").await.unwrap();
            let (mut s1, _) = l.accept().await.unwrap();
            s1.write_all(b"x").await.unwrap();
            // The client resets this connection. An application that has the
            // stream parked somewhere (idle pool, map of peers, ...) does
            // not notice until it next touches it.
            let parked = if server_drops_dead_stream {
                let mut b = [0u8; 1];
                let _ = s1.read(&mut b).await; // observes the reset
                drop(s1);
                None
            } else {
                Some(s1)
            };
            let (mut s2, _) = l.accept().await.unwrap();
            s2.write_all(b"ok").await.unwrap();
            std::future::pending::<()>().await;
            drop(parked);
        })
        .run("client", async move {
            let c1 = TcpStream::connect("server:9000").await.unwrap();
            let port1 = c1.local_addr().unwrap().port();
            let mut b = [0u8; 1];
            c1.peek(&mut b).await.unwrap();
            // Unread byte -> abortive close: RST goes out, the client
            // socket and its binding are gone immediately.
            drop(c1);
            tokio::time::sleep(Duration::from_millis(20)).await;

            wrap_allocator_to(port1).await;

            let mut c2 = TcpStream::connect("server:9000").await?;
            let port2 = c2.local_addr().unwrap().port();
            let mut buf = vec![0u8; 2];
            c2.read_exact(&mut buf).await?;
            Ok((port1, port2, buf))
        })
}

/// Control: when the server has dropped the dead stream the very same
/// schedule (same client port re-used) connects fine.
#[test]
fn control_same_port_reconnects_when_dead_stream_was_dropped() {
    let (p1, p2, buf) = run(true).expect("reconnect");
    assert_eq!(p1, p2, "test must re-use the client port");
    assert_eq!(buf, b"ok");
}

/// Violation: the listener on :9000 is alive, no established connection owns
/// the 4-tuple, yet the SYN is swallowed by the dead socket and the connect
/// fails.
#[test]
fn syn_for_a_dead_four_tuple_must_reach_the_live_listener() {
    let r = run(false);
    let (p1, p2, buf) = r.expect("connect to a live listener must succeed");
    assert_eq!(p1, p2);
    assert_eq!(buf, b"ok");
}
