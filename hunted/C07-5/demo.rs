//! C07 hunt, finding 5.
//!
//! Renaming a directory records a single `Rename{/d, /e}` for the directory
//! inode. Its children stay keyed under `/d/...` in `persisted_files` and
//! `synced_entries`, so after the rename is made durable the directory exists
//! under the new name but is empty, and the durable file is still reachable
//! under the old, no longer existing, directory.
#![cfg(feature = "unstable-fs")]

use std::os::unix::fs::FileExt;
use std::sync::{Arc, Mutex};
use std::time::Duration;
use turmoil::fs::shim::std::fs::{
    create_dir, metadata, read, read_dir, rename, sync_dir, OpenOptions,
};
use turmoil::fs::{enter, EnterCtx, Fs, FsConfig};

fn text(p: &str) -> Option<String> {
    read(p).ok().map(|v| String::from_utf8_lossy(&v).into_owned())
}

#[test]
fn durable_dir_rename_loses_durable_child() {
    let fs = Arc::new(Mutex::new(Fs::new(FsConfig::default(), 1)));
    let _g = enter(
        &fs,
        EnterCtx {
            now: Duration::from_secs(1),
            on_corruption: None,
        },
    );
    create_dir("/d").unwrap();
    sync_dir("/").unwrap();
    let f = OpenOptions::new()
        .write(true)
        .create_new(true)
        .open("/d/f")
        .unwrap();
    f.write_all_at(b"FFFF", 0).unwrap();
    f.sync_all().unwrap();
    sync_dir("/d").unwrap();
    drop(f);

    rename("/d", "/e").unwrap();
    sync_dir("/").unwrap();

    fs.lock().unwrap().crash();
    assert!(metadata("/d").is_err(), "/d was durably renamed away");
    assert!(metadata("/e").unwrap().is_dir());
    assert_eq!(
        read_dir("/e").unwrap().count(),
        1,
        "the renamed directory lost its durable entry"
    );
    assert_eq!(text("/e/f").as_deref(), Some("FFFF"));
    assert_eq!(text("/d/f"), None, "file still reachable through the old name");
}
