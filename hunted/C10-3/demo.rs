//! C10 hunt 3: an open file handle does not follow its file across rename
//! (handles are fd -> path). sync_all through the handle fails, and once the
//! rename has been flushed by sync_dir, I/O through the handle no longer
//! reaches the file.
#![cfg(feature = "unstable-fs")]
use std::os::unix::fs::FileExt;
use turmoil::fs::shim::std::fs::{read, rename, sync_dir, OpenOptions};
use turmoil::{Builder, Result};

#[test]
fn sync_all_through_handle_after_rename() -> Result {
    let mut sim = Builder::new().build();
    sim.client("c", async {
        let f = OpenOptions::new().read(true).write(true).create(true).open("/a")?;
        f.write_all_at(b"AAAA", 0)?;
        f.sync_all()?;
        sync_dir("/")?;
        rename("/a", "/b")?;
        let r = f.sync_all(); // fsync(fd) is unaffected by rename(2)
        assert!(r.is_ok(), "sync_all through the handle after rename: {r:?}");
        Ok(())
    });
    sim.run()
}

#[test]
fn io_through_handle_after_flushed_rename() -> Result {
    let mut sim = Builder::new().build();
    sim.client("c", async {
        let f = OpenOptions::new().read(true).write(true).create(true).open("/a")?;
        f.write_all_at(b"AAAA", 0)?;
        f.sync_all()?;
        sync_dir("/")?; // everything durable, nothing pending
        rename("/a", "/b")?;
        sync_dir("/")?; // rename durable, nothing pending
        let mut buf = [0u8; 8];
        let n = f.read_at(&mut buf, 0)?;
        assert_eq!(&buf[..n], b"AAAA", "read through the handle");
        f.write_all_at(b"ZZ", 0)?;
        assert_eq!(read("/b")?, b"ZZAA", "write through the handle must reach /b");
        Ok(())
    });
    sim.run()
}
