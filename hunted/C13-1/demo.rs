//! C13 hunt #1: both ends DROP their stream, no packet is lost, yet
//! neither socket is ever reclaimed.
//!
//! Client writes more than the server's receive buffer holds and drops
//! its stream (graceful close: FIN queued behind the data). The server
//! reads the first buffer-full, then drops its stream too (receive
//! buffer empty at that instant -> graceful close, FIN). The server's
//! orphaned socket keeps ACCEPTING the client's remaining data into a
//! receive buffer nobody will ever read, advertises window 0, and the
//! client's FIN (gated on window > 0, no zero-window probe) never
//! leaves. Result: server orphan sits in FIN_WAIT2, client orphan in
//! CLOSING, forever. Real TCP resets a connection that receives data
//! after the application closed it.

use std::time::Duration;

use tokio::io::{AsyncReadExt, AsyncWriteExt};
use turmoil_net::fixture::ClientServer;
use turmoil_net::shim::tokio::net::{TcpListener, TcpStream};
use turmoil_net::{netstat, KernelConfig};

const CAP: usize = 16;

#[test]
fn both_sides_dropped_without_loss_yet_sockets_never_reclaimed() {
    let cfg = KernelConfig::default().recv_buf_cap(CAP);
    ClientServer::with_config(cfg)
        .server("server", async move {
            let l = TcpListener::bind("0.0.0.0:9000").await.unwrap();
            let (mut s, _) = l.accept().await.unwrap();
            // Read one request header's worth, then hang up.
            let mut buf = [0u8; CAP];
            s.read_exact(&mut buf).await.unwrap();
            drop(s);
            drop(l);
            std::future::pending::<()>().await;
        })
        .run("client", async move {
            let mut c = TcpStream::connect("server:9000").await.unwrap();
            c.write_all(&[7u8; 4 * CAP]).await.unwrap();
            drop(c);

            // Both applications are done with the connection. Give the
            // stack far more than the whole retransmit budget
            // (retx_threshold 3 * (retx_max 5 + 1) = 18 ticks).
            tokio::time::sleep(Duration::from_millis(2000)).await;

            let cs = netstat("client");
            let ss = netstat("server");
            assert!(
                cs.entries.is_empty() && ss.entries.is_empty(),
                "sockets of a connection both ends dropped are still in the tables after 2000 ticks\nclient:\n{cs}\nserver:\n{ss}"
            );
        });
}

/// Same thing with the DEFAULT configuration (64 KiB buffers): the
/// client uploads 190 kB and drops, the server does a single read of
/// up to 64 KiB (it gets the first flight) and drops.
#[test]
fn default_config_upload_and_early_hangup_leaks_both_sockets() {
    ClientServer::new()
        .server("server", async move {
            let l = TcpListener::bind("0.0.0.0:9000").await.unwrap();
            let (mut s, _) = l.accept().await.unwrap();
            let mut buf = vec![0u8; 64 * 1024];
            let n = s.read(&mut buf).await.unwrap();
            assert!(n > 0);
            drop(s);
            drop(l);
            std::future::pending::<()>().await;
        })
        .run("client", async move {
            let mut c = TcpStream::connect("server:9000").await.unwrap();
            // 190 000 = first flight (65 535, read by the server) + what
            // the server's orphan still swallows (65 536) + a tail that
            // fits the 64 KiB send buffer, so write_all completes.
            c.write_all(&vec![7u8; 190_000]).await.unwrap();
            drop(c);

            tokio::time::sleep(Duration::from_millis(2000)).await;

            let cs = netstat("client");
            let ss = netstat("server");
            assert!(
                cs.entries.is_empty() && ss.entries.is_empty(),
                "sockets of a connection both ends dropped are still in the tables after 2000 ticks\nclient:\n{cs}\nserver:\n{ss}"
            );
        });
}

/// Consequence: the leaked server-side orphan keeps its binding, so the
/// service can never be restarted on its port.
#[test]
fn leaked_orphan_blocks_listener_rebind_forever() {
    let (tx, rx) = tokio::sync::oneshot::channel::<Option<std::io::ErrorKind>>();
    let cfg = KernelConfig::default().recv_buf_cap(CAP);
    ClientServer::with_config(cfg)
        .server("server", async move {
            let l = TcpListener::bind("0.0.0.0:9000").await.unwrap();
            let (mut s, _) = l.accept().await.unwrap();
            let mut buf = [0u8; CAP];
            s.read_exact(&mut buf).await.unwrap();
            drop(s);
            drop(l);
            tokio::time::sleep(Duration::from_millis(2000)).await;
            let r = TcpListener::bind("0.0.0.0:9000").await;
            tx.send(r.err().map(|e| e.kind())).unwrap();
            std::future::pending::<()>().await;
        })
        .run("client", async move {
            let mut c = TcpStream::connect("server:9000").await.unwrap();
            c.write_all(&[7u8; 4 * CAP]).await.unwrap();
            drop(c);
            let rebind_err = rx.await.unwrap();
            assert_eq!(
                rebind_err, None,
                "re-binding :9000 2000 ticks after listener and stream were dropped"
            );
        });
}
