//! C10 hunt 6: remove_file of a durable file followed by open(create) without
//! truncate: the new file shows the removed file's *synced* content, and a
//! later sync_dir changes what is observed.
#![cfg(feature = "unstable-fs")]
use std::os::unix::fs::FileExt;
use turmoil::fs::shim::std::fs::{read, remove_file, sync_dir, File, OpenOptions};
use turmoil::{Builder, Result};

#[test]
fn recreated_file_shows_removed_files_synced_bytes() -> Result {
    let mut sim = Builder::new().build();
    sim.client("c", async {
        let f = File::create("/f")?;
        f.write_all_at(b"AAAA", 0)?;
        f.sync_all()?;
        sync_dir("/")?; // fully durable, nothing pending
        drop(f);
        remove_file("/f")?;
        let g = OpenOptions::new().read(true).write(true).create_new(true).open("/f")?;
        assert_eq!(g.metadata()?.len(), 0, "a brand-new file must be empty");
        assert_eq!(read("/f")?, b"");
        Ok(())
    });
    sim.run()
}
