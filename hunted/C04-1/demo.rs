//! C04 hunt 1: a peer whose writer is parked on a full TCP window is never
//! unblocked when the remote host crashes while the whole window is still in
//! flight on the (healthy) link.
//!
//! The crashed host's stream has no unread data at the crash instant (all the
//! client's segments are still on the wire), so its drop only sends a FIN. The
//! in-flight data segments then reach a host that is down; turmoil does not
//! process messages for stopped hosts, so no RST is ever produced and the
//! client's writer stays parked for as long as the host stays down.

use std::cell::RefCell;
use std::rc::Rc;
use std::time::Duration;

use tokio::io::{AsyncReadExt, AsyncWriteExt};
use turmoil::net::{TcpListener, TcpStream};
use turmoil::{Builder, Result};

#[derive(Default, Debug, Clone)]
struct Progress {
    connected: bool,
    segments_written: usize,
    /// `Some(..)` once a write returned an error (= the writer was unblocked).
    write_outcome: Option<String>,
}

fn run(capacity: Option<usize>, latency_ms: u64) -> (Progress, bool) {
    let mut b = Builder::new();
    b.tick_duration(Duration::from_millis(1))
        .simulation_duration(Duration::from_secs(600))
        .min_message_latency(Duration::from_millis(latency_ms))
        .max_message_latency(Duration::from_millis(latency_ms))
        .rng_seed(7);
    if let Some(c) = capacity {
        b.tcp_capacity(c);
    }
    let mut sim = b.build();

    // A well behaved server: reads everything it is sent, as fast as it can.
    sim.host("server", || async {
        let l = TcpListener::bind("0.0.0.0:9000").await?;
        loop {
            let (mut s, _) = l.accept().await?;
            tokio::task::spawn_local(async move {
                let mut buf = [0u8; 4096];
                loop {
                    match s.read(&mut buf).await {
                        Ok(0) | Err(_) => break,
                        Ok(_) => {}
                    }
                }
            });
        }
    });

    let progress = Rc::new(RefCell::new(Progress::default()));
    let p = progress.clone();
    sim.client("client", async move {
        let mut s = TcpStream::connect("server:9000").await?;
        p.borrow_mut().connected = true;
        loop {
            match s.write_all(b"x").await {
                Ok(()) => p.borrow_mut().segments_written += 1,
                Err(e) => {
                    p.borrow_mut().write_outcome = Some(format!("{:?}", e.kind()));
                    return Ok(());
                }
            }
        }
    });

    // Run until the client's writer has filled the window and parked: the
    // segment count stops moving while nothing has been delivered yet.
    let mut last = usize::MAX;
    loop {
        sim.step().unwrap();
        let now = progress.borrow().segments_written;
        if progress.borrow().connected && now > 0 && now == last {
            break;
        }
        last = now;
    }
    let parked_at = progress.borrow().segments_written;

    // Crash the server while the window is in flight.
    sim.crash("server");

    // Healthy link, 5 simulated seconds (latency is a few ms): the parked
    // writer must have been unblocked by now.
    for _ in 0..5_000 {
        sim.step().unwrap();
        if progress.borrow().write_outcome.is_some() {
            break;
        }
    }
    let unblocked_while_down = progress.borrow().write_outcome.is_some();
    assert_eq!(
        progress.borrow().segments_written,
        parked_at,
        "no write may succeed against a crashed host"
    );

    // For the diagnosis: bouncing the host delivers the stale segments, the
    // (new) host answers RST, and only then the writer wakes up.
    sim.bounce("server");
    for _ in 0..200 {
        sim.step().unwrap();
        if progress.borrow().write_outcome.is_some() {
            break;
        }
    }
    let p = progress.borrow().clone();
    (p, unblocked_while_down)
}

/// Default TCP capacity (64 segments), 10 ms link latency.
#[test]
fn parked_writer_hangs_when_window_in_flight_default_capacity() -> Result {
    let (p, unblocked_while_down) = run(None, 10);
    eprintln!("after bounce: {p:?}");
    assert!(
        unblocked_while_down,
        "client writer parked on a full window stayed blocked for 5 s after \
         Sim::crash(server) returned (healthy link, 10 ms latency)"
    );
    Ok(())
}

/// Smallest window.
#[test]
fn parked_writer_hangs_when_window_in_flight_capacity_1() -> Result {
    let (p, unblocked_while_down) = run(Some(1), 10);
    eprintln!("after bounce: {p:?}");
    assert!(
        unblocked_while_down,
        "client writer parked on a full window stayed blocked for 5 s after \
         Sim::crash(server) returned (healthy link, 10 ms latency)"
    );
    Ok(())
}
