//! A RuleGuard that outlives its Net uninstalls an unrelated rule of the
//! NEXT Net entered on the same thread (RuleIds restart at 1 in every Net and
//! `uninstall_rule` resolves the id against whatever Net is current).
use std::cell::Cell;
use std::rc::Rc;
use std::time::Duration;

use turmoil_net::fixture::ClientServer;
use turmoil_net::shim::tokio::net::UdpSocket;
use turmoil_net::{rule, Net, Packet, RuleGuard, Verdict};

/// Custom-harness flavour: scheduler-side guards, permanent rule in the 2nd Net.
#[test]
fn stale_guard_removes_permanent_rule_of_next_net() {
    // --- simulation 1 -------------------------------------------------
    let mut net1 = Net::new();
    net1.add_host("a");
    let enter1 = net1.enter();
    let stale: RuleGuard = enter1.rule(|_: &Packet| Verdict::Pass); // RuleId(1) of net1
    drop(enter1); // sim 1 is over; its Net is gone. `stale` is still alive —
                  // lib.rs explicitly tolerates guards outliving the Net.

    // --- simulation 2 -------------------------------------------------
    let hits = Rc::new(Cell::new(0u32));
    let h = hits.clone();
    let mut net2 = Net::new();
    let a = net2.add_host("a");
    net2.add_host("b");
    let b_ip = net2.lookup("b");
    // Permanent rule: "lives for the whole Net".
    net2.rule(move |_: &Packet| {
        h.set(h.get() + 1);
        Verdict::Drop
    });
    let enter2 = net2.enter();
    enter2.set_current(a);

    // The leftover guard of the *first* simulation is released now.
    drop(stale);

    let s = block(UdpSocket::bind("0.0.0.0:0")).unwrap();
    s.try_send_to(b"x", (b_ip, 9000).into()).unwrap();
    let mut out = Vec::new();
    enter2.egress_all(&mut out);
    assert_eq!(out.len(), 1);
    let v = enter2.evaluate(&out[0]);
    drop(s);
    assert_eq!(hits.get(), 1, "net2's permanent rule was never consulted");
    assert_eq!(v, Verdict::Drop, "net2's permanent rule no longer decides packets");
}

/// Built-in-fixture flavour: a guard returned from one ClientServer run is
/// dropped inside the next run and silently lifts that run's forgotten rule.
#[test]
fn stale_guard_removes_forgotten_rule_of_next_fixture_run() {
    let stale: RuleGuard = ClientServer::new()
        .server("server", async {})
        .run("client", async { rule(|_: &Packet| Verdict::Pass) });

    let reply_arrived = ClientServer::new()
        .server("server", async {
            let s = UdpSocket::bind("0.0.0.0:9000").await.unwrap();
            let mut b = [0u8; 4];
            loop {
                let (n, from) = s.recv_from(&mut b).await.unwrap();
                s.send_to(&b[..n], from).await.unwrap();
            }
        })
        .run("client", async move {
            // "leaving the rule installed for the rest of the simulation"
            rule(|_: &Packet| Verdict::Drop).forget();
            drop(stale); // unrelated guard from the previous simulation
            let c = UdpSocket::bind("0.0.0.0:0").await.unwrap();
            c.send_to(b"hi", "server:9000").await.unwrap();
            let mut b = [0u8; 4];
            tokio::time::timeout(Duration::from_millis(20), c.recv_from(&mut b))
                .await
                .is_ok()
        });
    assert!(
        !reply_arrived,
        "traffic flowed although a forgotten Drop-everything rule is installed"
    );
}

fn block<F: std::future::Future>(f: F) -> F::Output {
    let mut f = std::pin::pin!(f);
    let mut cx = std::task::Context::from_waker(std::task::Waker::noop());
    match f.as_mut().poll(&mut cx) {
        std::task::Poll::Ready(v) => v,
        std::task::Poll::Pending => panic!("pending"),
    }
}
