//! C10 hunt 2: remove_dir + create_dir of the same directory, then sync_dir on
//! that directory: the directory disappears from every view.
#![cfg(feature = "unstable-fs")]
use turmoil::fs::shim::std::fs::{create_dir, metadata, read_dir, remove_dir, sync_dir, write};
use turmoil::{Builder, Result};

#[test]
fn sync_dir_of_recreated_directory_makes_it_vanish() -> Result {
    let mut sim = Builder::new().build();
    sim.client("c", async {
        create_dir("/d")?;
        remove_dir("/d")?;
        create_dir("/d")?;
        assert!(metadata("/d")?.is_dir());
        sync_dir("/d")?; // a sync must not change anything observable
        assert!(metadata("/d").is_ok(), "/d vanished after sync_dir(/d)");
        assert!(read_dir("/d").is_ok());
        write("/d/f", b"x")?;
        Ok(())
    });
    sim.run()
}

#[test]
fn same_with_a_previously_durable_directory() -> Result {
    let mut sim = Builder::new().build();
    sim.client("c", async {
        create_dir("/d")?;
        sync_dir("/")?;
        sync_dir("/d")?;
        remove_dir("/d")?;
        create_dir("/d")?;
        sync_dir("/d")?;
        assert!(metadata("/d").is_ok(), "/d vanished after sync_dir(/d)");
        Ok(())
    });
    sim.run()
}
