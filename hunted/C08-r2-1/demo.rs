//! C08 / HUNT 1: a message that is still in flight (sent 2 ms ago on a link
//! with a fixed 5 ms latency) is delivered while the link is held, when the
//! hold is placed from inside host code and the tick is longer than the
//! latency.
//!
//! Mechanism: `Link::enqueue` stamps the message with the *link clock*, which
//! only moves in `Topology::tick_by`, i.e. it is the time of the START of the
//! current step, not the time of the send (top.rs: `DeliverAfter(self.now +
//! delay)`). A message sent late in a tick (host clock 8 ms of a 10 ms tick)
//! with a latency of 5 ms is therefore due at 5 ms -- before it was even sent --
//! and the `tick_by` of the next step moves it to `Link::deliverable`, where
//! `hold()` does not look. A hold placed by host code at the first instant of
//! that next step (simulated time 10 ms; the message needs until 13 ms) misses
//! it: the receiver gets it at 10 ms, 2 ms after the send (less than the
//! minimum latency) and 200 ms before the release.
//!
//! This is not the decided case "latency already elapsed when hold is called":
//! on every clock a test can observe (`turmoil::sim_elapsed`, tokio `Instant`)
//! the latency has NOT elapsed at the hold. The control test runs the identical
//! host code with the default 1 ms tick, where the message is held.
use std::cell::RefCell;
use std::net::{IpAddr, Ipv4Addr};
use std::rc::Rc;
use std::time::Duration;

use turmoil::net::UdpSocket;
use turmoil::{Builder, Result};

const PORT: u16 = 4000;

#[test]
fn message_sent_2ms_ago_with_5ms_latency_crosses_a_hold() -> Result {
    run(Duration::from_millis(10))
}

/// Control: the same host code with the default 1 ms tick. The link clock is
/// never more than 1 ms behind the sender, the message is caught by the hold.
#[test]
fn control_same_schedule_with_1ms_tick_is_held() -> Result {
    run(Duration::from_millis(1))
}

fn run(tick: Duration) -> Result {
    let mut sim = Builder::new()
        .tick_duration(tick)
        .min_message_latency(Duration::from_millis(5))
        .max_message_latency(Duration::from_millis(5))
        .build();

    // (sim time of the event, what)
    let log: Rc<RefCell<Vec<(Duration, String)>>> = Rc::new(RefCell::new(vec![]));

    // registration order: a, b  => a is ticked before b in every step
    let l = log.clone();
    sim.client("a", async move {
        let sock = UdpSocket::bind((IpAddr::V4(Ipv4Addr::UNSPECIFIED), PORT)).await?;
        // send late in the first tick: sim time 8ms
        tokio::time::sleep(Duration::from_millis(8)).await;
        sock.send_to(b"m", ("b", PORT)).await?;
        l.borrow_mut()
            .push((turmoil::sim_elapsed().unwrap(), "send".into()));
        // first instant of the next step: sim time 10ms, the message was sent
        // 2ms ago and needs 5ms: it is in flight.
        tokio::time::sleep(Duration::from_millis(2)).await;
        turmoil::hold("a", "b");
        l.borrow_mut()
            .push((turmoil::sim_elapsed().unwrap(), "hold".into()));
        tokio::time::sleep(Duration::from_millis(200)).await;
        l.borrow_mut()
            .push((turmoil::sim_elapsed().unwrap(), "release".into()));
        turmoil::release("a", "b");
        tokio::time::sleep(Duration::from_millis(50)).await;
        Ok(())
    });

    let l = log.clone();
    sim.client("b", async move {
        let sock = UdpSocket::bind((IpAddr::V4(Ipv4Addr::UNSPECIFIED), PORT)).await?;
        let mut buf = [0u8; 8];
        let _ = sock.recv_from(&mut buf).await?;
        l.borrow_mut()
            .push((turmoil::sim_elapsed().unwrap(), "recv".into()));
        Ok(())
    });

    sim.run()?;

    let log = log.borrow();
    eprintln!("{log:?}");
    let at = |what: &str| log.iter().find(|(_, w)| w == what).unwrap().0;
    let (send, hold, release, recv) = (at("send"), at("hold"), at("release"), at("recv"));
    assert!(hold < send + Duration::from_millis(5), "hold was placed while the message was in flight");
    assert!(
        recv >= release,
        "message sent at {send:?} (latency 5ms), link held at {hold:?}, released at {release:?}, but received at {recv:?}"
    );
    Ok(())
}
