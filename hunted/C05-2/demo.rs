//! C05 hunt, finding 2: host code that runs while its host is being crashed or
//! bounced (Drop impls of the host's tasks, the software factory closure) reads
//! the virtual clock through `HostTimer::elapsed`, which subtracts the tokio
//! `Instant` captured at the start of the host's last step from
//! `Instant::now()`. During `crash` / `bounce` the old runtime is already gone:
//! `Instant::now()` is the wall clock (Drop impls) or the clock of the freshly
//! created runtime (factory), so the result depends on how much *real* time the
//! test has consumed.
//!
//! `std::thread::sleep` below only stands for a test harness that needs more real
//! than virtual time (tick 1 ms, a step that takes longer than 1 ms of CPU).
use std::cell::RefCell;
use std::rc::Rc;
use std::time::Duration;
use turmoil::Builder;

const TICK: Duration = Duration::from_millis(1);

struct RecordOnDrop(Rc<RefCell<Vec<Duration>>>);
impl Drop for RecordOnDrop {
    fn drop(&mut self) {
        // `sim_elapsed` (== `elapsed` for a host registered at time zero) is
        // `None` when the Sim itself is dropped at the end of the test.
        if let Some(t) = turmoil::sim_elapsed() {
            self.0.borrow_mut().push(t);
        }
    }
}

#[test]
fn drop_impl_during_crash_reads_wall_clock() {
    let mut sim = Builder::new().tick_duration(TICK).build();
    let seen = Rc::new(RefCell::new(vec![]));
    let s = seen.clone();
    sim.host("a", move || {
        let s = s.clone();
        async move {
            let _guard = RecordOnDrop(s.clone());
            loop {
                s.borrow_mut().push(turmoil::elapsed());
                tokio::time::sleep(TICK).await;
            }
        }
    });
    for _ in 0..3 {
        sim.step().unwrap();
    }
    std::thread::sleep(Duration::from_millis(200)); // real time only
    sim.crash("a");
    sim.step().unwrap();
    sim.bounce("a");
    sim.step().unwrap();

    let seen = seen.borrow().clone();
    println!("{seen:?}");
    // monotone
    assert!(
        seen.windows(2).all(|w| w[0] <= w[1]),
        "elapsed() observed by host `a` went backwards: {seen:?}"
    );
}

#[test]
fn drop_impl_during_crash_exact_value() {
    let mut sim = Builder::new().tick_duration(TICK).build();
    let seen = Rc::new(RefCell::new(vec![]));
    let s = seen.clone();
    sim.host("a", move || {
        let guard = RecordOnDrop(s.clone());
        async move {
            let _guard = guard;
            std::future::pending::<()>().await;
            Ok(())
        }
    });
    for _ in 0..3 {
        sim.step().unwrap();
    }
    std::thread::sleep(Duration::from_millis(200));
    sim.crash("a");
    // three steps of 1 ms were made, nothing else moved virtual time
    assert_eq!(*seen.borrow(), vec![sim.elapsed()]);
}

#[test]
fn software_factory_during_bounce_reads_new_runtime_clock() {
    let mut sim = Builder::new().tick_duration(TICK).build();
    let seen = Rc::new(RefCell::new(vec![]));
    let s = seen.clone();
    let first = std::cell::Cell::new(true);
    sim.host("a", move || {
        if !first.replace(false) {
            // restart: e.g. "log the boot time"
            s.borrow_mut().push(turmoil::sim_elapsed().unwrap());
        }
        async move {
            std::future::pending::<()>().await;
            Ok(())
        }
    });
    for _ in 0..3 {
        sim.step().unwrap();
    }
    std::thread::sleep(Duration::from_millis(200));
    sim.bounce("a");
    assert_eq!(*seen.borrow(), vec![sim.elapsed()]);
}
