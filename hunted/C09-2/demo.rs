//! C09 violation 2: a current member of a multicast group on the sender's own
//! host does not get the datagram, because the loop-back decision reads the
//! IP_MULTICAST_LOOP flag of the *destination* port instead of the sending
//! socket.
//!
//! `UdpSocket::send` (crates/turmoil/src/net/udp.rs) does, for a member that
//! lives on the sending host,
//!
//!     if host.udp.is_multicast_loop_enabled(dst.port()) { send_loopback(..) }
//!
//! `dst.port()` is the member's port. The option is documented as "Controls
//! whether this socket sees the multicast packets it sends itself" and, like on
//! Linux, belongs to the sender. Here the sender has it enabled (the default)
//! and is a different socket than the member, yet the member never sees the
//! datagram. The same member does receive the same group traffic from a remote
//! host, so the flag is not a receive filter either.
use std::{net::Ipv4Addr, time::Duration};

use tokio::time::{sleep, timeout};
use turmoil::{net::UdpSocket, Builder, Result};

const GROUP: Ipv4Addr = Ipv4Addr::new(239, 0, 0, 1);
const PORT: u16 = 9000;

#[test]
fn local_member_misses_datagram_of_other_local_socket() -> Result {
    let mut sim = Builder::new().build();

    sim.client("a", async move {
        let member = UdpSocket::bind((Ipv4Addr::UNSPECIFIED, PORT)).await?;
        member.join_multicast_v4(GROUP, Ipv4Addr::UNSPECIFIED)?;
        // the member does not want to see what it sends itself
        member.set_multicast_loop_v4(false)?;

        let mut buf = [0u8; 16];

        // control: traffic from the remote host "r" reaches the member
        let (n, _) = timeout(Duration::from_secs(1), member.recv_from(&mut buf))
            .await
            .expect("remote multicast reaches the member")?;
        assert_eq!(&buf[..n], b"remote");

        // another socket of this host, loop enabled (default), sends to the group
        let sender = UdpSocket::bind((Ipv4Addr::UNSPECIFIED, 0)).await?;
        assert!(sender.multicast_loop_v4()?);
        sender.send_to(b"local", (GROUP, PORT)).await?;

        let got = timeout(Duration::from_secs(1), member.recv_from(&mut buf)).await;
        assert!(
            got.is_ok(),
            "the member a:{PORT} of {GROUP} never received the datagram sent by another \
             socket of its host whose IP_MULTICAST_LOOP is enabled"
        );
        Ok(())
    });

    sim.client("r", async move {
        let s = UdpSocket::bind((Ipv4Addr::UNSPECIFIED, 0)).await?;
        sleep(Duration::from_millis(5)).await;
        s.send_to(b"remote", (GROUP, PORT)).await?;
        Ok(())
    });

    sim.run()
}
