//! C13 hunt: an accepted stream handed to a `tokio::spawn`ed handler -- the
//! accept-loop shape the project's own tests/rules.rs uses inside
//! `ClientServer::server`. The spawned task is not host-scoped: its socket
//! syscalls (read / write / close-on-drop) go to whichever host's task was
//! polled last. Fd numbers are per-host counters, so the handler's `Fd(2)`
//! names the *client's* second socket: the handler's drop closes the client's
//! in-flight connect (which then never resolves) and the server child is never
//! closed.

use std::time::Duration;

use tokio::io::{AsyncReadExt, AsyncWriteExt};
use turmoil_net::fixture::ClientServer;
use turmoil_net::netstat;
use turmoil_net::shim::tokio::net::{TcpListener, TcpStream};

#[test]
fn spawned_handler_closes_its_own_socket() {
    ClientServer::new()
        .server("server", async move {
            let l = TcpListener::bind("0.0.0.0:9000").await.unwrap();
            loop {
                let (mut s, _) = l.accept().await.unwrap();
                tokio::spawn(async move {
                    let mut buf = [0u8; 16];
                    // echo until EOF / error, then drop (close)
                    loop {
                        match s.read(&mut buf).await {
                            Ok(0) | Err(_) => break,
                            Ok(n) => {
                                let _ = s.write_all(&buf[..n]).await;
                            }
                        }
                    }
                });
            }
        })
        .run("client", async move {
            // connection 0: echo round trip, then close.
            let mut c = TcpStream::connect("server:9000").await.unwrap();
            c.write_all(b"ping").await.unwrap();
            let mut buf = [0u8; 4];
            c.read_exact(&mut buf).await.unwrap();
            assert_eq!(&buf, b"ping");
            drop(c);

            // connection 1: the listener is up, reachable and has backlog
            // room, nothing is dropped: connect must succeed. 500 ticks is far
            // beyond the SYN retransmit budget (5 x 3 ticks), so even a
            // TimedOut / ConnectionRefused error would have surfaced by now.
            let r = tokio::time::timeout(
                Duration::from_millis(500),
                TcpStream::connect("server:9000"),
            )
            .await;
            let server = netstat("server");
            let client = netstat("client");
            assert!(
                matches!(r, Ok(Ok(_))),
                "second connect to a live listener: {r:?}\nserver:\n{server}\nclient:\n{client}"
            );
            drop(r);

            tokio::time::sleep(Duration::from_millis(100)).await;
            let s = netstat("server");
            assert_eq!(s.entries.len(), 1, "only the listener should remain:\n{s}");
            let c = netstat("client");
            assert!(c.entries.is_empty(), "client table should be empty:\n{c}");
        });
}
