//! C09 violation 1: a multicast datagram is delivered to a socket that is not
//! a member of the group.
//!
//! `UdpSocket::send` resolves the group to the unicast addresses
//! `(host, port)` of the members *at send time* and puts plain unicast
//! envelopes on the links. Membership is never looked at again when the
//! envelope arrives, so whatever socket owns `(host, port)` at that moment gets
//! the datagram: a socket that has left the group, or a brand new socket that
//! never joined it.
//!
//! Only healthy links with a fixed 50 ms latency are used.
use std::{net::Ipv4Addr, time::Duration};

use tokio::time::{sleep, timeout};
use turmoil::{net::UdpSocket, Builder, Result};

const GROUP: Ipv4Addr = Ipv4Addr::new(239, 0, 0, 1);
const PORT: u16 = 9000;

fn sim() -> turmoil::Sim<'static> {
    Builder::new()
        .min_message_latency(Duration::from_millis(50))
        .max_message_latency(Duration::from_millis(50))
        .build()
}

fn sender(sim: &mut turmoil::Sim<'static>) {
    sim.client("a", async move {
        let s = UdpSocket::bind((Ipv4Addr::UNSPECIFIED, 0)).await?;
        // t = 10 ms: the group has exactly one member, b:9000
        sleep(Duration::from_millis(10)).await;
        s.send_to(b"to-the-group", (GROUP, PORT)).await?;
        sleep(Duration::from_millis(500)).await;
        Ok(())
    });
}

/// The member socket is closed while the datagram is on the wire and a fresh
/// socket, which never joins any group, is bound to the same port.
#[test]
fn never_joined_socket_receives_group_datagram() -> Result {
    let mut sim = sim();
    sim.client("b", async move {
        let member = UdpSocket::bind((Ipv4Addr::UNSPECIFIED, PORT)).await?;
        member.join_multicast_v4(GROUP, Ipv4Addr::UNSPECIFIED)?;

        // t = 20 ms: the datagram (sent at 10 ms) arrives at 60 ms
        sleep(Duration::from_millis(20)).await;
        drop(member); // leaves every group, unbinds

        let fresh = UdpSocket::bind((Ipv4Addr::UNSPECIFIED, PORT)).await?;
        let mut buf = [0u8; 32];
        let got = timeout(Duration::from_millis(300), fresh.recv_from(&mut buf)).await;
        assert!(
            got.is_err(),
            "a socket that never joined {GROUP} received a datagram addressed to the group: {:?} {:?}",
            got,
            std::str::from_utf8(&buf[..12])
        );
        Ok(())
    });
    sender(&mut sim);
    sim.run()
}

/// The member leaves the group (the call returns Ok) while the datagram is on
/// the wire, and still receives it afterwards.
#[test]
fn socket_receives_group_datagram_after_leaving() -> Result {
    let mut sim = sim();
    sim.client("b", async move {
        let s = UdpSocket::bind((Ipv4Addr::UNSPECIFIED, PORT)).await?;
        s.join_multicast_v4(GROUP, Ipv4Addr::UNSPECIFIED)?;

        sleep(Duration::from_millis(20)).await;
        s.leave_multicast_v4(GROUP, Ipv4Addr::UNSPECIFIED)?;

        let mut buf = [0u8; 32];
        let got = timeout(Duration::from_millis(300), s.recv_from(&mut buf)).await;
        assert!(
            got.is_err(),
            "received a datagram addressed to {GROUP} 40 ms after leaving the group: {got:?}"
        );
        Ok(())
    });
    sender(&mut sim);
    sim.run()
}
