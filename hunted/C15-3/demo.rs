//! C15 hunt 3: address allocator vs hosts registered by literal address.
use std::net::{IpAddr, Ipv4Addr, Ipv6Addr};
use turmoil::{Builder, IpVersion, Result};

#[test]
fn v4_name_gets_address_of_literal_host() -> Result {
    let mut sim = Builder::new().build();
    let lit = IpAddr::V4(Ipv4Addr::new(192, 168, 0, 2));
    sim.client(lit, async { Ok(()) });
    let a = sim.lookup("a");
    let b = sim.lookup("b");
    assert_ne!(a, b);
    assert_ne!(a, lit, "name 'a' resolved to the address of another registered host");
    assert_ne!(b, lit, "name 'b' resolved to the address of another registered host");
    sim.run()
}

#[test]
fn v6_name_gets_address_of_literal_host() -> Result {
    let mut sim = Builder::new().ip_version(IpVersion::V6).build();
    let lit = IpAddr::V6(Ipv6Addr::new(0xfe80, 0, 0, 0, 0, 0, 0, 2));
    sim.client(lit, async { Ok(()) });
    let a = sim.lookup("a");
    let b = sim.lookup("b");
    assert_ne!(a, b);
    assert_ne!(a, lit);
    assert_ne!(b, lit, "name 'b' resolved to the address of another registered host");
    sim.run()
}

#[test]
fn registering_named_host_after_literal_host_panics() -> Result {
    let mut sim = Builder::new().build();
    sim.client(Ipv4Addr::new(192, 168, 0, 1), async { Ok(()) });
    // first name ever used -> allocator yields 192.168.0.1 again
    sim.client("first", async { Ok(()) });
    sim.run()
}
