//! C07 hunt, finding 4.
//!
//! The mirror image of finding 3: pending `Write`/`SetLen` ops issued to a
//! file survive, keyed by its name, after `sync_dir` has durably replaced
//! (rename onto the name) or removed that file. They are then applied to
//! whatever file holds the name next: live reads show them at once, and the
//! next `sync_all` (or a random background sync, or a torn write at crash
//! time) makes them durable in a file they were never written to.
#![cfg(feature = "unstable-fs")]

use std::os::unix::fs::FileExt;
use std::sync::{Arc, Mutex};
use std::time::Duration;
use turmoil::fs::shim::std::fs::{read, remove_file, rename, sync_dir, File, OpenOptions};
use turmoil::fs::{enter, EnterCtx, Fs, FsConfig};

fn ctx() -> EnterCtx<'static> {
    EnterCtx {
        now: Duration::from_secs(1),
        on_corruption: None,
    }
}

fn durable(path: &str, data: &[u8]) {
    let f = OpenOptions::new()
        .write(true)
        .create_new(true)
        .open(path)
        .unwrap();
    f.write_all_at(data, 0).unwrap();
    f.sync_all().unwrap();
    sync_dir("/").unwrap();
}

fn text(p: &str) -> Option<String> {
    read(p).ok().map(|v| String::from_utf8_lossy(&v).into_owned())
}

/// Atomic replace done by the book (write tmp, fsync tmp, rename, fsync dir)
/// of a file that has an older unsynced in-place write.
#[test]
fn atomic_replace_of_file_with_pending_write() {
    let fs = Arc::new(Mutex::new(Fs::new(FsConfig::default(), 1)));
    let _g = enter(&fs, ctx());
    durable("/cfg", b"old-config");

    // unsynced in-place edit of the current file
    let f = OpenOptions::new().write(true).open("/cfg").unwrap();
    f.write_all_at(b"XX", 0).unwrap();
    drop(f);

    // atomic replace
    let t = File::create("/cfg.tmp").unwrap();
    t.write_all_at(b"NEW-CONFIG", 0).unwrap();
    t.sync_all().unwrap();
    drop(t);
    rename("/cfg.tmp", "/cfg").unwrap();
    sync_dir("/").unwrap();

    // any later fsync of the file
    let f = OpenOptions::new().read(true).open("/cfg").unwrap();
    f.sync_all().unwrap();
    drop(f);

    fs.lock().unwrap().crash();
    assert_eq!(
        text("/cfg").as_deref(),
        Some("NEW-CONFIG"),
        "bytes written to the replaced file show up in the replacement"
    );
}

/// Unsynced write, durable removal, new file under the same name.
#[test]
fn new_file_inherits_write_to_durably_removed_file() {
    let fs = Arc::new(Mutex::new(Fs::new(FsConfig::default(), 1)));
    let _g = enter(&fs, ctx());
    durable("/f", b"AAAA");

    let f = OpenOptions::new().write(true).open("/f").unwrap();
    f.write_all_at(b"BB", 0).unwrap(); // never synced
    drop(f);
    remove_file("/f").unwrap();
    sync_dir("/").unwrap(); // removal durable

    let f = OpenOptions::new()
        .write(true)
        .create_new(true)
        .open("/f")
        .unwrap();
    sync_dir("/").unwrap(); // new, empty file durable
    f.sync_all().unwrap(); // nothing was written to it
    drop(f);

    fs.lock().unwrap().crash();
    assert_eq!(
        text("/f").as_deref(),
        Some(""),
        "nothing was ever written to the new /f"
    );
}
