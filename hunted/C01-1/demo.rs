//! C01 hunt #1: a destructor that runs while `Sim::crash` tears the host
//! software down reads the host clock through the public API
//! (`turmoil::elapsed`, `turmoil::sim_elapsed`, `turmoil::since_epoch`).
//! The value must be a function of the simulation only.

use std::sync::{Arc, Mutex};
use std::time::{Duration, SystemTime};

use turmoil::Builder;

#[derive(Debug, Clone, PartialEq, Eq)]
struct Observed {
    elapsed: Duration,
    sim_elapsed: Option<Duration>,
    since_epoch: Option<Duration>,
}

/// Records the host's virtual clock when it is dropped.
struct Stamp(Arc<Mutex<Vec<Observed>>>);

impl Drop for Stamp {
    fn drop(&mut self) {
        self.0.lock().unwrap().push(Observed {
            elapsed: turmoil::elapsed(),
            sim_elapsed: turmoil::sim_elapsed(),
            since_epoch: turmoil::since_epoch(),
        });
    }
}

/// One fixed scenario: a host parks forever holding a `Stamp`; the controller
/// steps the simulation `steps` times and crashes the host. `machine_stall`
/// is wall-clock time the *test thread* loses between the last step and the
/// crash (a slow or preempted machine); it is not part of the simulation.
fn scenario(steps: usize, machine_stall: Duration) -> Vec<Observed> {
    let log = Arc::new(Mutex::new(Vec::new()));

    let mut sim = Builder::new()
        .rng_seed(7)
        .epoch(SystemTime::UNIX_EPOCH + Duration::from_secs(1_000_000))
        .tick_duration(Duration::from_millis(1))
        .build();

    let host_log = log.clone();
    sim.host("server", move || {
        let stamp = Stamp(host_log.clone());
        async move {
            let _stamp = stamp;
            std::future::pending::<()>().await;
            Ok(())
        }
    });

    for _ in 0..steps {
        sim.step().unwrap();
    }

    std::thread::sleep(machine_stall);
    sim.crash("server");

    let out = log.lock().unwrap().clone();
    out
}

#[test]
fn crash_time_destructor_sees_virtual_time_only() {
    let a = scenario(3, Duration::ZERO);
    let b = scenario(3, Duration::from_millis(40));
    assert_eq!(a.len(), 1);
    assert_eq!(
        a, b,
        "same seed, epoch, program and controller script, but the clock read \
         by a destructor during Sim::crash differs"
    );
}

#[test]
fn crash_time_destructor_two_identical_runs() {
    // Even with the identical stall the two runs disagree (the reading has
    // nanosecond wall-clock noise in it).
    let a = scenario(3, Duration::from_millis(20));
    let b = scenario(3, Duration::from_millis(20));
    assert_eq!(a, b);
}

/// No artificial stall at all: the host software simply does a fixed,
/// deterministic amount of CPU work each time it wakes (as real software in
/// a debug build does), so three 1 ms ticks take longer than 3 ms of wall
/// time. Two identical runs then disagree.
#[test]
fn cpu_bound_host_two_identical_runs() {
    fn one_run() -> Vec<Observed> {
        let log = Arc::new(Mutex::new(Vec::new()));
        let mut sim = Builder::new()
            .rng_seed(7)
            .epoch(SystemTime::UNIX_EPOCH + Duration::from_secs(1_000_000))
            .tick_duration(Duration::from_millis(1))
            .build();
        let host_log = log.clone();
        sim.host("server", move || {
            let stamp = Stamp(host_log.clone());
            async move {
                let _stamp = stamp;
                let mut acc = 1u64;
                loop {
                    for i in 0..3_000_000u64 {
                        acc = std::hint::black_box(acc.wrapping_mul(6364136223846793005).wrapping_add(i));
                    }
                    tokio::time::sleep(Duration::from_millis(1)).await;
                }
            }
        });
        for _ in 0..3 {
            sim.step().unwrap();
        }
        sim.crash("server");
        let out = log.lock().unwrap().clone();
        out
    }
    let a = one_run();
    let b = one_run();
    assert_eq!(a, b);
}

/// The natural exposure: a tracing layer that stamps turmoil's own events
/// with simulated time (the same thing `examples/grpc` does with
/// `turmoil::sim_elapsed()` for its log lines). The "Crash" event that
/// `Sim::crash` emits gets a wall-clock dependent stamp.
mod stamped_trace {
    use super::*;
    use tracing::field::{Field, Visit};
    use tracing_subscriber::layer::{Context, Layer, SubscriberExt};

    #[derive(Default)]
    struct Msg(String);
    impl Visit for Msg {
        fn record_debug(&mut self, field: &Field, value: &dyn std::fmt::Debug) {
            if field.name() == "message" {
                self.0 = format!("{value:?}");
            }
        }
    }

    struct Stamper(Arc<Mutex<Vec<(String, Option<Duration>)>>>);
    impl<S: tracing::Subscriber> Layer<S> for Stamper {
        fn on_event(&self, event: &tracing::Event<'_>, _ctx: Context<'_, S>) {
            if event.metadata().target() != "turmoil" {
                return;
            }
            let mut m = Msg::default();
            event.record(&mut m);
            if m.0 == "Crash" {
                self.0.lock().unwrap().push((m.0, turmoil::sim_elapsed()));
            }
        }
    }

    fn traced(stall: Duration) -> Vec<(String, Option<Duration>)> {
        let events = Arc::new(Mutex::new(Vec::new()));
        let sub = tracing_subscriber::registry().with(Stamper(events.clone()));
        tracing::subscriber::with_default(sub, || {
            let mut sim = Builder::new()
                .rng_seed(7)
                .epoch(SystemTime::UNIX_EPOCH + Duration::from_secs(1_000_000))
                .tick_duration(Duration::from_millis(1))
                .build();
            sim.host("server", || async {
                std::future::pending::<()>().await;
                Ok(())
            });
            for _ in 0..3 {
                sim.step().unwrap();
            }
            std::thread::sleep(stall);
            sim.crash("server");
        });
        let out = events.lock().unwrap().clone();
        out
    }

    #[test]
    fn crash_event_has_a_reproducible_virtual_timestamp() {
        let a = traced(Duration::ZERO);
        let b = traced(Duration::from_millis(40));
        assert_eq!(a.len(), 1);
        assert_eq!(a, b);
    }
}
