//! C17 hunt #6: socket calls made by a task that a server future spawned
//! (`tokio::spawn`, the accept-loop shape the crate's own tests use) run
//! against whichever host happened to be polled last, not the server.

use std::io::ErrorKind;
use std::time::Duration;

use turmoil_net::fixture::ClientServer;
use turmoil_net::shim::tokio::net::UdpSocket;

#[test]
fn spawned_server_task_binds_on_the_server() {
    let (tx, rx) = tokio::sync::oneshot::channel();
    let got = ClientServer::new()
        .server("server", async move {
            let h = tokio::spawn(async move {
                // "server" is this host's own address.
                let r = UdpSocket::bind("server:7000").await;
                let kind = r.as_ref().err().map(|e| e.kind());
                let _ = tx.send(kind);
                if let Ok(s) = r {
                    let mut b = [0u8; 8];
                    if let Ok((n, from)) = s.recv_from(&mut b).await {
                        let _ = s.send_to(&b[..n], from).await;
                    }
                }
            });
            let _ = h.await;
            std::future::pending::<()>().await;
        })
        .run("client", async move {
            let bind_err: Option<ErrorKind> = rx.await.unwrap();
            let c = UdpSocket::bind("0.0.0.0:0").await.unwrap();
            c.send_to(b"ping", "server:7000").await.unwrap();
            let mut b = [0u8; 8];
            let echoed = tokio::time::timeout(Duration::from_millis(50), c.recv_from(&mut b))
                .await
                .is_ok();
            (bind_err, echoed)
        });
    assert_eq!(got, (None, true), "(bind error on the server's own address, echo received)");
}

/// The same defect in the accept-loop shape used by the crate's own
/// `tests/rules.rs`: a per-connection handler task. All it takes is the
/// client task being polled (a timer) between accept and the request.
#[test]
fn spawned_connection_handler_serves_its_own_connection() {
    use tokio::io::{AsyncReadExt, AsyncWriteExt};
    use turmoil_net::shim::tokio::net::{TcpListener, TcpStream};

    let r = ClientServer::new()
        .server("server", async move {
            let l = TcpListener::bind("0.0.0.0:9000").await.unwrap();
            loop {
                let (mut s, _) = l.accept().await.unwrap();
                tokio::spawn(async move {
                    let mut buf = [0u8; 16];
                    if let Ok(n) = s.read(&mut buf).await {
                        if n > 0 {
                            let _ = s.write_all(&buf[..n]).await;
                        }
                    }
                });
            }
        })
        .run("client", async move {
            let mut c = TcpStream::connect("server:9000").await.unwrap();
            tokio::time::sleep(Duration::from_millis(5)).await;
            c.write_all(b"ok").await.unwrap();
            let mut buf = [0u8; 2];
            tokio::time::timeout(Duration::from_millis(200), c.read_exact(&mut buf))
                .await
                .map(|r| r.map(|_| buf))
        });
    let buf = r.expect("echo within 200 ms").expect("read");
    assert_eq!(&buf, b"ok");
}
