//! C13 hunt #2: an orphaned sender facing a ZERO send window is never
//! reclaimed once the peer's single RST is lost.
//!
//! Client writes more than the server's receive buffer holds and drops
//! its stream (FIN_WAIT1, FIN queued behind the unsent tail). The
//! server never reads and then drops its stream: unread bytes -> one
//! RST, socket reaped at once. That RST is lost (one dropped packet,
//! well inside the retransmit budget). The client orphan has nothing in
//! flight (everything sent was ACKed, the rest is blocked by window 0),
//! so `check_retx` never counts it, nothing is ever transmitted again
//! (no zero-window probe, the FIN is gated on window > 0) and the
//! socket, its binding and its 4-tuple stay forever. Any probe would be
//! answered with a RST by the server host (the 4-tuple is gone there).

use std::time::Duration;

use tokio::io::AsyncWriteExt;
use turmoil_net::fixture::ClientServer;
use turmoil_net::shim::tokio::net::{TcpListener, TcpStream};
use turmoil_net::{netstat, rule, KernelConfig, Packet, Transport, Verdict};

const CAP: usize = 16;

#[test]
fn zero_window_orphan_never_reclaimed_after_one_lost_rst() {
    let cfg = KernelConfig::default().recv_buf_cap(CAP);
    ClientServer::with_config(cfg)
        .server("server", async move {
            let l = TcpListener::bind("0.0.0.0:9000").await.unwrap();
            let (s, _) = l.accept().await.unwrap();
            // Never read. Hang up after the client's data has arrived
            // and the retransmit machinery has settled.
            tokio::time::sleep(Duration::from_millis(50)).await;
            drop(s);
            drop(l);
            std::future::pending::<()>().await;
        })
        .run("client", async move {
            // Lose exactly one packet: the first RST on the wire.
            let mut dropped = 0u32;
            rule(move |pkt: &Packet| match &pkt.payload {
                Transport::Tcp(s) if s.flags.rst && dropped == 0 => {
                    dropped += 1;
                    Verdict::Drop
                }
                _ => Verdict::Pass,
            })
            .forget();

            let mut c = TcpStream::connect("server:9000").await.unwrap();
            c.write_all(&[7u8; 4 * CAP]).await.unwrap();
            drop(c);

            tokio::time::sleep(Duration::from_millis(2000)).await;

            let ss = netstat("server");
            assert!(ss.entries.is_empty(), "server side should be gone:\n{ss}");
            let cs = netstat("client");
            assert!(
                cs.entries.is_empty(),
                "client orphan still in the table 2000 ticks after both ends dropped the connection:\n{cs}"
            );
        });
}
