//! C06 hunt, finding 2: a FIN that overtakes the last data segment by one
//! round is thrown away by the receiver (strict in-order receive, no
//! reassembly) and that discarded transmission silently counts against the
//! FIN's retransmit budget. Five dropped FIN retransmissions (= retx_max,
//! the documented maximum of the fault model) then exhaust it: the closing
//! side's TCB is aborted without telling anybody (its application already
//! closed, no RST is emitted on retransmit exhaustion) and the reader, which
//! holds every data byte, waits for end-of-file forever - no EOF, no error.
//!
//! Faults used: one packet delayed by one round, five packets dropped.

use std::time::Duration;

use tokio::io::{AsyncReadExt, AsyncWriteExt};
use turmoil_net::fixture::ClientServer;
use turmoil_net::shim::tokio::net::{TcpListener, TcpStream};
use turmoil_net::{rule, Packet, Transport, Verdict};

const MSG: &[u8] = b"thirteen byte";

fn run(drop_fins: u32, delay_data: bool) -> Result<Vec<u8>, String> {
    ClientServer::new()
        .server("server", async move {
            let l = TcpListener::bind("0.0.0.0:9000").await.unwrap();
            let (mut s, _) = l.accept().await.unwrap();
            s.write_all(MSG).await.unwrap();
            drop(s); // ordinary close: FIN follows the data in the same egress
            std::future::pending::<()>().await;
        })
        .run("client", async move {
            let mut data_seen = false;
            let mut fins = 0;
            rule(move |p: &Packet| {
                let Transport::Tcp(s) = &p.payload else {
                    return Verdict::Pass;
                };
                if s.src_port != 9000 {
                    return Verdict::Pass;
                }
                if !s.payload.is_empty() && !data_seen {
                    data_seen = true;
                    if delay_data {
                        // the data segment is kept in flight for one round:
                        // the FIN emitted right behind it arrives first
                        return Verdict::Deliver(Duration::from_millis(1));
                    }
                }
                if s.flags.fin {
                    fins += 1;
                    // fins == 1 is the original FIN (delivered); the next
                    // `drop_fins` retransmissions are dropped
                    if fins >= 2 && fins < 2 + drop_fins {
                        return Verdict::Drop;
                    }
                }
                Verdict::Pass
            })
            .forget();

            let mut c = TcpStream::connect("server:9000")
                .await
                .map_err(|e| format!("connect: {:?}", e.kind()))?;
            let mut got = Vec::new();
            // 10 s = 10 000 egress rounds; a segment's whole budget is 18
            match tokio::time::timeout(Duration::from_secs(10), c.read_to_end(&mut got)).await {
                Ok(Ok(_)) => Ok(got),
                Ok(Err(e)) => Err(format!("read error {:?} after {} bytes", e.kind(), got.len())),
                Err(_) => Err(format!(
                    "reader still waiting after 10 000 rounds: {} of {} bytes, no EOF, no error",
                    got.len(),
                    MSG.len()
                )),
            }
        })
}

/// Control: without the one-round reordering the same five drops are survived
/// (with FIN #1 delivered in order nothing needs retransmitting at all, so
/// drop the original too: fins 1..=5).
#[test]
fn control_five_fin_drops_without_reordering() {
    let r = ClientServer::new()
        .server("server", async move {
            let l = TcpListener::bind("0.0.0.0:9000").await.unwrap();
            let (mut s, _) = l.accept().await.unwrap();
            s.write_all(MSG).await.unwrap();
            drop(s);
            std::future::pending::<()>().await;
        })
        .run("client", async move {
            let mut fins = 0;
            rule(move |p: &Packet| match &p.payload {
                Transport::Tcp(s) if s.src_port == 9000 && s.flags.fin => {
                    fins += 1;
                    if fins <= 5 {
                        Verdict::Drop
                    } else {
                        Verdict::Pass
                    }
                }
                _ => Verdict::Pass,
            })
            .forget();
            let mut c = TcpStream::connect("server:9000").await.unwrap();
            let mut got = Vec::new();
            tokio::time::timeout(Duration::from_secs(10), c.read_to_end(&mut got))
                .await
                .map(|r| r.map(|_| got))
        });
    assert_eq!(r.unwrap().unwrap(), MSG);
}

#[test]
fn fin_overtaking_data_plus_five_drops_leaves_reader_waiting_forever() {
    assert_eq!(
        run(5, true),
        Ok(MSG.to_vec()),
        "1 packet delayed by 1 round + 5 drops (<= retx_max): data and EOF must be delivered"
    );
}
