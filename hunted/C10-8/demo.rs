//! C10 hunt 8 (log rotation): rename a durable file away and create a new file
//! under the old name: the new file's truncate/writes land in the renamed
//! file, and without truncate the new file shows the renamed file's content.
#![cfg(feature = "unstable-fs")]
use std::os::unix::fs::FileExt;
use turmoil::fs::shim::std::fs::{read, rename, sync_dir, File, OpenOptions};
use turmoil::{Builder, Result};

#[test]
fn new_file_under_old_name_clobbers_renamed_file() -> Result {
    let mut sim = Builder::new().build();
    sim.client("c", async {
        let f = File::create("/log")?;
        f.write_all_at(b"AAAA", 0)?;
        f.sync_all()?;
        sync_dir("/")?; // durable, nothing pending
        drop(f);
        rename("/log", "/log.1")?;
        let g = File::create("/log")?;
        g.write_all_at(b"B", 0)?;
        assert_eq!(read("/log")?, b"B");
        assert_eq!(read("/log.1")?, b"AAAA", "rotated file must keep its content");
        Ok(())
    });
    sim.run()
}

#[test]
fn new_file_under_old_name_is_not_empty() -> Result {
    let mut sim = Builder::new().build();
    sim.client("c", async {
        let f = File::create("/log")?;
        f.write_all_at(b"AAAA", 0)?;
        f.sync_all()?;
        sync_dir("/")?;
        drop(f);
        rename("/log", "/log.1")?;
        let g = OpenOptions::new().read(true).write(true).create_new(true).open("/log")?;
        assert_eq!(g.metadata()?.len(), 0, "create_new must yield an empty file");
        Ok(())
    });
    sim.run()
}
