//! C10 hunt 1: moving a second file onto a name that was vacated by a still
//! pending rename mixes the two files' unsynced content. No sync involved.
#![cfg(feature = "unstable-fs")]
use turmoil::fs::shim::std::fs::{metadata, read, rename, write};
use turmoil::{Builder, Result};

#[test]
fn rename_onto_vacated_name_mixes_content() -> Result {
    let mut sim = Builder::new().build();
    sim.client("c", async {
        write("/a", b"AAAA")?;
        write("/b", b"BB")?;
        rename("/a", "/t")?; // /a is free now
        rename("/b", "/a")?; // second file takes the vacated name
        assert_eq!(read("/a")?, b"BB");
        assert_eq!(metadata("/t")?.len(), 4, "length of /t");
        assert_eq!(read("/t")?, b"AAAA", "content of /t");
        Ok(())
    });
    sim.run()
}
