//! C06 hunt, finding 3: the reader closes its stream (cleanly: everything it
//! received is read, so the close is a FIN, not a RST) while the peer keeps
//! writing. No packet is ever dropped, delayed or reordered. Data that
//! reaches the closed (orphaned, lingering FIN_WAIT) socket is silently
//! buffered and ACKed instead of being answered with a RST (Linux:
//! TCPABORTONDATA), nobody will ever drain that buffer, its window closes for
//! good, and the writer blocks forever inside `write_all`: no error, no
//! progress, ~128 KiB of "successfully" written bytes silently lost.

use std::cell::RefCell;
use std::rc::Rc;
use std::time::Duration;

use tokio::io::{AsyncReadExt, AsyncWriteExt};
use turmoil_net::fixture::ClientServer;
use turmoil_net::shim::tokio::net::{TcpListener, TcpStream};

#[test]
fn writer_hangs_forever_after_peer_closed() {
    // Default configuration: 64 KiB send buffer + 64 KiB receive buffer.
    const TOTAL: usize = 300 * 1024;
    let outcome: Rc<RefCell<Option<String>>> = Rc::new(RefCell::new(None));
    let out = outcome.clone();

    ClientServer::new()
        .server("server", async move {
            let l = TcpListener::bind("0.0.0.0:9000").await.unwrap();
            let (mut s, _) = l.accept().await.unwrap();
            let data = vec![0x5au8; TOTAL];
            let r = s.write_all(&data).await;
            *out.borrow_mut() = Some(match r {
                Ok(()) => "write_all returned Ok".to_string(),
                Err(e) => format!("write_all returned Err({:?})", e.kind()),
            });
        })
        .run("client", async move {
            let mut c = TcpStream::connect("server:9000").await.unwrap();
            let mut first = [0u8; 16];
            c.read_exact(&mut first).await.unwrap();
            assert_eq!(first, [0x5au8; 16]);
            // Everything received so far is read, then the stream is closed.
            let mut rest = vec![0u8; 1 << 20];
            while let Ok(n) = c.try_read(&mut rest) {
                if n == 0 {
                    break;
                }
            }
            drop(c);
            // One simulated minute = 60 000 egress rounds; the whole
            // retransmit budget of a segment is 18 rounds.
            tokio::time::sleep(Duration::from_secs(60)).await;
        });

    let got = outcome.borrow().clone();
    assert!(
        got.is_some(),
        "server is still blocked in write_all 60 000 rounds after the peer closed: \
         neither completion nor an error"
    );
}
