//! C04 hunt, hypothesis 1: segments of a peer that are on the wire towards a
//! host whose end of the stream is already gone (closed by a bounce, or by the
//! host's software) when the host is crashed. The crash resets only the streams
//! the host still has a socket for; the segments reach a host that is down and
//! are never answered, so the peer's writer parks on the flow-control window
//! and never returns while the host is down.

use std::cell::Cell;
use std::rc::Rc;
use std::time::Duration;

use tokio::io::{AsyncReadExt, AsyncWriteExt};
use turmoil::net::{TcpListener, TcpStream};
use turmoil::{Builder, Result, Sim};

const PORT: u16 = 9000;

#[derive(Clone, Copy, Debug, PartialEq)]
enum Inject {
    /// control: bounce only
    BounceOnly,
    /// control: crash only
    CrashOnly,
    /// bounce, `gap` steps, crash
    BounceThenCrash { gap: usize },
}

/// The server reads everything it is sent. The client writes for ever and
/// records how its writing ended.
fn sim_with_streaming_client<'a>(
    latency_ms: u64,
    capacity: usize,
    outcome: Rc<Cell<Option<&'static str>>>,
) -> Sim<'a> {
    let mut sim = Builder::new()
        .tick_duration(Duration::from_millis(1))
        .min_message_latency(Duration::from_millis(latency_ms))
        .max_message_latency(Duration::from_millis(latency_ms))
        .tcp_capacity(capacity)
        .simulation_duration(Duration::from_secs(3600))
        .build();

    sim.host("server", || async {
        let l = TcpListener::bind(("0.0.0.0", PORT)).await?;
        loop {
            let (mut s, _) = l.accept().await?;
            tokio::spawn(async move {
                let mut buf = [0u8; 64];
                loop {
                    match s.read(&mut buf).await {
                        Ok(0) | Err(_) => break,
                        Ok(_) => {}
                    }
                }
            });
        }
    });

    sim.client("client", async move {
        let mut s = TcpStream::connect(("server", PORT)).await?;
        loop {
            if s.write_all(b"12345678").await.is_err() {
                outcome.set(Some("write error"));
                return Ok(());
            }
        }
    });

    sim
}

fn run(inject: Inject, latency_ms: u64, capacity: usize) -> Option<&'static str> {
    run_at(40, inject, latency_ms, capacity)
}

fn run_at(
    warmup: usize,
    inject: Inject,
    latency_ms: u64,
    capacity: usize,
) -> Option<&'static str> {
    let outcome = Rc::new(Cell::new(None));
    let mut sim = sim_with_streaming_client(latency_ms, capacity, outcome.clone());

    // Reach the steady state: the window's worth of segments is on the wire.
    for _ in 0..warmup {
        sim.step().unwrap();
    }
    assert_eq!(outcome.get(), None, "writer must still be streaming");

    match inject {
        Inject::BounceOnly => sim.bounce("server"),
        Inject::CrashOnly => sim.crash("server"),
        Inject::BounceThenCrash { gap } => {
            sim.bounce("server");
            for _ in 0..gap {
                sim.step().unwrap();
            }
            sim.crash("server");
        }
    }

    // The link is healthy, the latency is `latency_ms` ticks: a reset or an
    // error has had ample time to arrive after 500 steps.
    for _ in 0..500 {
        sim.step().unwrap();
        if outcome.get().is_some() {
            break;
        }
    }
    outcome.get()
}

#[test]
fn controls_bounce_only_and_crash_only_unblock_the_writer() {
    for cap in [1, 4, 64] {
        assert_eq!(run(Inject::BounceOnly, 5, cap), Some("write error"));
        assert_eq!(run(Inject::CrashOnly, 5, cap), Some("write error"));
    }
}

#[test]
fn bounce_then_crash_leaves_the_peer_writer_parked() -> Result {
    let mut hung = vec![];
    for cap in [1, 4, 64] {
        for warmup in 40..46 {
            for gap in [0usize, 1, 2, 3, 4] {
                let got = run_at(warmup, Inject::BounceThenCrash { gap }, 5, cap);
                if got.is_none() {
                    hung.push((cap, warmup, gap));
                }
            }
        }
    }
    assert!(
        hung.is_empty(),
        "the client's write never returned for (tcp_capacity, bounce step, steps between bounce and crash) = {hung:?}"
    );
    Ok(())
}

/// Same root cause without a bounce: the host's software drops its end of the
/// stream (nothing unread: an orderly close), the peer still has segments on
/// the wire, the host is crashed before they arrive.
#[test]
fn stream_closed_by_the_software_just_before_the_crash() -> Result {
    let outcome = Rc::new(Cell::new(None::<&'static str>));
    let mut sim = Builder::new()
        .tick_duration(Duration::from_millis(1))
        .min_message_latency(Duration::from_millis(5))
        .max_message_latency(Duration::from_millis(5))
        .tcp_capacity(4)
        .simulation_duration(Duration::from_secs(3600))
        .build();

    sim.host("server", || async {
        let l = TcpListener::bind(("0.0.0.0", PORT)).await?;
        loop {
            let (mut s, _) = l.accept().await?;
            // Read for 30 ms, then close the connection.
            let _ = tokio::time::timeout(Duration::from_millis(30), async {
                let mut buf = [0u8; 64];
                while let Ok(n) = s.read(&mut buf).await {
                    if n == 0 {
                        break;
                    }
                }
            })
            .await;
            drop(s);
        }
    });

    let o = outcome.clone();
    sim.client("client", async move {
        let mut s = TcpStream::connect(("server", PORT)).await?;
        loop {
            if s.write_all(b"12345678").await.is_err() {
                o.set(Some("write error"));
                return Ok(());
            }
        }
    });

    // connect takes 5 steps, the server closes about 30 steps later; crash
    // right after the close, while the client's segments are on the wire.
    let mut crashed = false;
    for step in 0..600 {
        sim.step()?;
        if !crashed && step == 37 {
            assert_eq!(outcome.get(), None);
            sim.crash("server");
            crashed = true;
        }
        if outcome.get().is_some() {
            break;
        }
    }
    assert_eq!(
        outcome.get(),
        Some("write error"),
        "the client's write never returned after the crash"
    );
    Ok(())
}
