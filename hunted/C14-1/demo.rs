//! C14 hypothesis 1: tick durations that are not a whole number of
//! milliseconds. The network clock and the host clocks are tokio paused
//! clocks that only move in whole milliseconds, the simulation's virtual
//! clock (`Sim::elapsed`, `turmoil::elapsed`, `turmoil::sim_elapsed`) moves by
//! exactly one tick per step.

use std::cell::RefCell;
use std::net::{IpAddr, Ipv4Addr};
use std::rc::Rc;
use std::time::Duration;

use turmoil::net::UdpSocket;
use turmoil::{Builder, Result};

const PORT: u16 = 9000;

/// One record per datagram: (index, sender virtual time at send, receiver
/// virtual time at receipt).
type Log = Rc<RefCell<Vec<(u64, Duration, Duration)>>>;

fn run(tick: Duration, latency: Duration, gap: Duration, n: u64) -> Vec<(u64, Duration, Duration)> {
    let mut sim = Builder::new()
        .tick_duration(tick)
        .simulation_duration(Duration::from_secs(60))
        .rng_seed(1)
        .build();

    let log: Log = Rc::new(RefCell::new(Vec::new()));

    let rx_log = log.clone();
    sim.host("rx", move || {
        let log = rx_log.clone();
        async move {
            let sock = UdpSocket::bind((IpAddr::from(Ipv4Addr::UNSPECIFIED), PORT)).await?;
            let mut buf = [0u8; 24];
            loop {
                let (len, _) = sock.recv_from(&mut buf).await?;
                let now = turmoil::sim_elapsed().unwrap();
                assert_eq!(len, 24);
                let idx = u64::from_be_bytes(buf[0..8].try_into().unwrap());
                let sent = u128::from_be_bytes(buf[8..24].try_into().unwrap());
                log.borrow_mut()
                    .push((idx, Duration::from_nanos(sent as u64), now));
            }
        }
    });

    sim.client("tx", async move {
        let sock = UdpSocket::bind((IpAddr::from(Ipv4Addr::UNSPECIFIED), 0)).await?;
        for i in 0..n {
            let now = turmoil::sim_elapsed().unwrap();
            let mut msg = [0u8; 24];
            msg[0..8].copy_from_slice(&i.to_be_bytes());
            msg[8..24].copy_from_slice(&now.as_nanos().to_be_bytes());
            sock.send_to(&msg, ("rx", PORT)).await?;
            tokio::time::sleep(gap).await;
        }
        // give the last datagram ample time to arrive
        tokio::time::sleep(latency * 3 + tick * 3).await;
        Ok(())
    });

    // fixed latency on the only link: every message gets exactly `latency`
    sim.set_link_latency("tx", "rx", latency);

    sim.run().unwrap();
    let out = log.borrow().clone();
    out
}

fn check(tick: Duration, latency: Duration, gap: Duration, n: u64) {
    let log = run(tick, latency, gap, n);
    assert_eq!(log.len() as u64, n, "every message is delivered");
    let lo = latency.saturating_sub(tick);
    let hi = latency + tick;
    let mut bad = Vec::new();
    for (idx, sent, recv) in &log {
        // signed delay in nanos
        let delay = recv.as_nanos() as i128 - sent.as_nanos() as i128;
        if delay < lo.as_nanos() as i128 || delay > hi.as_nanos() as i128 {
            bad.push((*idx, *sent, *recv, delay));
        }
    }
    assert!(
        bad.is_empty(),
        "tick {tick:?}, fixed link latency {latency:?}: allowed delay [{lo:?}, {hi:?}], \
         out of window (idx, sent, received, delay ns): {bad:?}"
    );
}

#[test]
fn control_whole_millisecond_tick() -> Result {
    check(
        Duration::from_millis(2),
        Duration::from_millis(10),
        Duration::from_millis(3),
        10,
    );
    Ok(())
}

#[test]
fn tick_1500us_latency_10ms() -> Result {
    check(
        Duration::from_micros(1500),
        Duration::from_millis(10),
        Duration::from_millis(3),
        10,
    );
    Ok(())
}

#[test]
fn tick_100us_latency_10ms() -> Result {
    check(
        Duration::from_micros(100),
        Duration::from_millis(10),
        Duration::from_millis(3),
        10,
    );
    Ok(())
}

/// The same thing seen from outside the hosts, with `Sim::elapsed` only.
#[test]
fn tick_100us_latency_10ms_outside_view() -> Result {
    let tick = Duration::from_micros(100);
    let latency = Duration::from_millis(10);
    let mut sim = Builder::new()
        .tick_duration(tick)
        .simulation_duration(Duration::from_secs(60))
        .rng_seed(1)
        .build();

    let sent = Rc::new(RefCell::new(false));
    let got = Rc::new(RefCell::new(false));

    let g = got.clone();
    sim.host("rx", move || {
        let g = g.clone();
        async move {
            let sock = UdpSocket::bind((IpAddr::from(Ipv4Addr::UNSPECIFIED), PORT)).await?;
            let mut buf = [0u8; 8];
            sock.recv_from(&mut buf).await?;
            *g.borrow_mut() = true;
            std::future::pending::<()>().await;
            Ok(())
        }
    });
    let s = sent.clone();
    sim.client("tx", async move {
        let sock = UdpSocket::bind((IpAddr::from(Ipv4Addr::UNSPECIFIED), 0)).await?;
        sock.send_to(b"x", ("rx", PORT)).await?;
        *s.borrow_mut() = true;
        std::future::pending::<()>().await;
        Ok(())
    });
    sim.set_link_latency("tx", "rx", latency);

    let mut sent_at = None; // Sim::elapsed at the start of the step that sent
    let mut got_at = None; // Sim::elapsed at the end of the step that received
    for _ in 0..1000 {
        let before = sim.elapsed();
        sim.step()?;
        if sent_at.is_none() && *sent.borrow() {
            sent_at = Some(before);
        }
        if got_at.is_none() && *got.borrow() {
            got_at = Some(sim.elapsed());
            break;
        }
    }
    let sent_at = sent_at.expect("sent");
    let got_at = got_at.expect("every message is delivered");
    // `got_at - sent_at` over-estimates the delay by up to one tick, and it
    // still is far below the minimum latency minus one tick.
    let upper_estimate = got_at - sent_at;
    assert!(
        upper_estimate >= latency - tick,
        "fixed latency {latency:?}, tick {tick:?}: message sent in the step starting at \
         {sent_at:?} was received by the end of the step ending at {got_at:?}: at most \
         {upper_estimate:?} of virtual time"
    );
    Ok(())
}

/// The same thing measured with the hosts' own tokio clocks
/// (`tokio::time::Instant`), which do not agree with `turmoil::elapsed` when
/// the tick is not a whole number of milliseconds: now the message is late.
#[test]
fn tick_1500us_latency_2100us_tokio_instant() -> Result {
    let tick = Duration::from_micros(1500);
    let latency = Duration::from_micros(2100);
    let mut sim = Builder::new()
        .tick_duration(tick)
        .simulation_duration(Duration::from_secs(60))
        .rng_seed(1)
        .build();

    // offsets from each host's first instant; both hosts start in step 1
    let sent = Rc::new(RefCell::new(None));
    let got = Rc::new(RefCell::new(None));

    let g = got.clone();
    sim.host("rx", move || {
        let g = g.clone();
        async move {
            let t0 = tokio::time::Instant::now();
            let sock = UdpSocket::bind((IpAddr::from(Ipv4Addr::UNSPECIFIED), PORT)).await?;
            let mut buf = [0u8; 8];
            sock.recv_from(&mut buf).await?;
            *g.borrow_mut() = Some(t0.elapsed());
            std::future::pending::<()>().await;
            Ok(())
        }
    });
    let s = sent.clone();
    sim.client("tx", async move {
        let t0 = tokio::time::Instant::now();
        let sock = UdpSocket::bind((IpAddr::from(Ipv4Addr::UNSPECIFIED), 0)).await?;
        tokio::time::sleep(Duration::from_millis(20)).await;
        sock.send_to(b"x", ("rx", PORT)).await?;
        *s.borrow_mut() = Some(t0.elapsed());
        tokio::time::sleep(Duration::from_millis(50)).await;
        Ok(())
    });
    sim.set_link_latency("tx", "rx", latency);
    sim.run()?;

    let sent = sent.borrow().expect("sent");
    let got = got.borrow().expect("every message is delivered");
    let delay = got - sent;
    assert!(
        delay <= latency + tick,
        "fixed latency {latency:?}, tick {tick:?}: sent at {sent:?}, received at {got:?} \
         on the hosts' tokio clocks: delay {delay:?} > {:?}",
        latency + tick
    );
    Ok(())
}
