//! C18 hunt #2: the ring ignores the access mode the file was opened with.
//!
//! A `Write` SQE on a descriptor opened read-only succeeds and changes the
//! file, while the same write through the synchronous file API is refused
//! (PermissionDenied, no effect). Symmetrically a `Read` SQE on a write-only
//! descriptor returns the data although `read_at` is refused.

use std::os::fd::AsRawFd;
use std::os::unix::fs::FileExt;
use turmoil::fs::shim::std::fs::{create_dir_all, read, write, File, OpenOptions};
use turmoil::io_uring::{cqueue, opcode, types, IoUring};
use turmoil::{Builder, Result};

fn drain_one(ring: &mut IoUring) -> cqueue::Entry {
    // No latency configured: the CQE is mature at once.
    let mut cq = ring.completion();
    cq.sync();
    cq.next().expect("CQE")
}

#[test]
fn ring_write_on_read_only_fd_differs_from_sync_api() -> Result {
    let mut sim = Builder::new().build();
    sim.client("c", async {
        create_dir_all("/d")?;
        write("/d/f", b"original")?;

        // Read-only handle.
        let file = File::open("/d/f")?;

        // Synchronous API: refused, nothing changes.
        let sync_res = file.write_at(b"XXXX", 0);
        assert!(sync_res.is_err(), "sync write on O_RDONLY must fail");
        assert_eq!(read("/d/f")?, b"original");

        // Same write through the ring.
        let mut ring = IoUring::new(4)?;
        let payload = b"XXXX".to_vec();
        let w = opcode::Write::new(
            types::Fd(file.as_raw_fd()),
            payload.as_ptr(),
            payload.len() as u32,
        )
        .offset(0)
        .build()
        .user_data(1);
        unsafe { ring.submission().push(&w).expect("push") };
        ring.submit()?;
        let cqe = drain_one(&mut ring);
        assert_eq!(cqe.user_data(), 1);

        let after = read("/d/f")?;
        assert!(
            cqe.result() < 0 && after == b"original",
            "ring write on a read-only fd: result {} (sync API: {:?}), file now {:?}",
            cqe.result(),
            sync_res,
            String::from_utf8_lossy(&after),
        );
        Ok(())
    });
    sim.run()
}

#[test]
fn ring_read_on_write_only_fd_differs_from_sync_api() -> Result {
    let mut sim = Builder::new().build();
    sim.client("c", async {
        create_dir_all("/d")?;
        write("/d/g", b"secret!!")?;

        // Write-only handle (no truncate).
        let file = OpenOptions::new().write(true).open("/d/g")?;

        let mut sbuf = [0u8; 8];
        let sync_res = file.read_at(&mut sbuf, 0);
        assert!(sync_res.is_err(), "sync read on O_WRONLY must fail");

        let mut ring = IoUring::new(4)?;
        let mut buf = vec![0u8; 8];
        let r = opcode::Read::new(types::Fd(file.as_raw_fd()), buf.as_mut_ptr(), 8)
            .offset(0)
            .build()
            .user_data(2);
        unsafe { ring.submission().push(&r).expect("push") };
        ring.submit()?;
        let cqe = drain_one(&mut ring);
        assert_eq!(cqe.user_data(), 2);
        assert!(
            cqe.result() < 0 && buf == [0u8; 8],
            "ring read on a write-only fd: result {} (sync API: {:?}), buffer {:?}",
            cqe.result(),
            sync_res,
            String::from_utf8_lossy(&buf),
        );
        Ok(())
    });
    sim.run()
}
