//! C02 hunt 1: an IPv6 peer address that carries a scope id (the normal way
//! to write a link-local fe80::/64 address, which is what turmoil hands out
//! for IpVersion::V6) or a flow label.
use std::net::{IpAddr, Ipv6Addr, SocketAddr, SocketAddrV6};

use tokio::io::{AsyncReadExt, AsyncWriteExt};
use turmoil::{
    net::{TcpListener, TcpStream},
    Builder, IpVersion, Result,
};

const PORT: u16 = 9000;

fn run(scope_id: u32, flowinfo: u32) -> Result {
    let mut sim = Builder::new().ip_version(IpVersion::V6).build();

    sim.host("server", || async {
        let l = TcpListener::bind((IpAddr::from(Ipv6Addr::UNSPECIFIED), PORT)).await?;
        loop {
            let (mut s, _) = l.accept().await?;
            tokio::spawn(async move {
                let mut buf = Vec::new();
                s.read_to_end(&mut buf).await.unwrap();
                s.write_all(&buf).await.unwrap();
                s.shutdown().await.unwrap();
            });
        }
    });

    sim.client("client", async move {
        let ip = match turmoil::lookup("server") {
            IpAddr::V6(ip) => ip,
            _ => unreachable!(),
        };
        let dst = SocketAddr::V6(SocketAddrV6::new(ip, PORT, flowinfo, scope_id));
        let mut s = TcpStream::connect(dst).await?;
        s.write_all(b"hello world").await?;
        s.shutdown().await?;
        let mut got = Vec::new();
        s.read_to_end(&mut got).await?;
        assert_eq!(got, b"hello world");
        Ok(())
    });

    sim.run()
}

#[test]
fn plain_v6() -> Result {
    run(0, 0)
}

#[test]
fn v6_with_scope_id() -> Result {
    run(1, 0)
}

#[test]
fn v6_with_flowinfo() -> Result {
    run(0, 7)
}
