//! C01 hunt, candidate 2.
//!
//! `Sim::step` leaves through `rt.tick(tick)?` when the software of a host
//! returns `Err`. The lines after it -- `world.current = None` and
//! `world.tick(addr, tick)`, which is where `HostTimer::now` is forgotten --
//! are skipped, so the failed host keeps the `Instant` of its (paused) runtime
//! in `HostTimer::now`. A controller that reacts to the failure by restarting
//! the host (`Sim::bounce`) makes `Rt::cancel_tasks` drop the host's remaining
//! tasks outside the runtime; a destructor that asks turmoil for the time
//! (`turmoil::elapsed`, `sim_elapsed`, `since_epoch`) then gets
//! `accumulated + (wall clock - paused instant)`: a value that depends on how
//! long the machine took, not on the seed.
//!
//! (Same mechanism as the repaired "between steps the host clock stands at
//! its accumulated value" defect; the repair clears `now` only on the normal
//! way out of the host's turn.)

use std::cell::{Cell, RefCell};
use std::rc::Rc;
use std::time::{Duration, SystemTime};

use turmoil::Builder;

type Log = Rc<RefCell<Vec<String>>>;

struct Guard(Log);
impl Drop for Guard {
    fn drop(&mut self) {
        if turmoil::in_simulation() {
            self.0.borrow_mut().push(format!(
                "worker stopped at elapsed={:?} sim_elapsed={:?} since_epoch={:?}",
                turmoil::elapsed(),
                turmoil::sim_elapsed(),
                turmoil::since_epoch()
            ));
        }
    }
}

fn scenario() -> Vec<String> {
    let log: Log = Rc::new(RefCell::new(Vec::new()));
    let mut sim = Builder::new()
        .rng_seed(11)
        .epoch(SystemTime::UNIX_EPOCH + Duration::from_secs(1_700_000_000))
        .build();

    let host_log = log.clone();
    let first_boot = Rc::new(Cell::new(true));
    sim.host("flaky", move || {
        let log = host_log.clone();
        let first_boot = first_boot.clone();
        async move {
            let guard = Guard(log.clone());
            tokio::task::spawn_local(async move {
                let _guard = guard;
                std::future::pending::<()>().await;
            });
            tokio::time::sleep(Duration::from_millis(3)).await;
            if first_boot.replace(false) {
                // the first incarnation fails
                Err("disk on fire")?;
            }
            std::future::pending::<()>().await;
            Ok(())
        }
    });
    sim.client("observer", async {
        tokio::time::sleep(Duration::from_millis(12)).await;
        Ok(())
    });

    // Controller script: keep the system running, restart what fails.
    loop {
        match sim.step() {
            Ok(true) => break,
            Ok(false) => {}
            Err(e) => {
                log.borrow_mut()
                    .push(format!("{:?}: host failed: {e}; restarting it", sim.elapsed()));
                // The controller does some real work here (collects a report,
                // checks invariants, ...). It takes the machine a few ms.
                std::thread::sleep(Duration::from_millis(10));
                sim.bounce("flaky");
            }
        }
    }
    log.borrow_mut()
        .push(format!("finished at {:?}", sim.elapsed()));
    let out = log.borrow().clone();
    out
}

#[test]
fn restart_after_a_failed_step_replays_identically() {
    let a = scenario();
    let b = scenario();
    println!("{a:#?}");
    assert_eq!(a, b, "same seed, same programs, different execution");
    // and the clock the destructor saw is the virtual one: the failure is
    // noticed in the step that covers 3ms .. 4ms of host time
    assert!(
        a.iter()
            .any(|l| l.starts_with("worker stopped at elapsed=3ms")
                || l.starts_with("worker stopped at elapsed=4ms")),
        "destructor saw a clock that is not the host's virtual clock: {a:#?}"
    );
}
