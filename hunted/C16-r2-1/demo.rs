//! C16 hunt 1: a reordered zero-window ACK that carries the SAME ack
//! number as the window update that superseded it closes the send
//! window for good.
//!
//! recv_buf_cap = 1000 on both hosts. The client writes 1000 bytes,
//! the server's buffer fills and it answers {ack=iss+1001, window=0}.
//! The server application then reads everything, which emits the
//! window update {ack=iss+1001, window=1000}. The fabric delays only
//! the zero-window ACK by 10 ms (plain reordering, nothing is lost),
//! so the client sees the update first and the stale zero afterwards.
//! Both carry the same ack number, so the "not older than snd_una"
//! guard in handle_established lets the stale window through:
//! snd_wnd = 0 while the peer's buffer is empty. Nothing ever reopens
//! it: the receiver has no reason to send another update and the
//! sender has nothing in flight that could elicit an ACK. The next
//! write is accepted into the send buffer and never transmitted.

use std::cell::Cell;
use std::rc::Rc;
use std::time::Duration;

use tokio::io::{AsyncReadExt, AsyncWriteExt};
use turmoil_net::fixture::ClientServer;
use turmoil_net::shim::tokio::net::{TcpListener, TcpStream};
use turmoil_net::{rule, KernelConfig, Packet, Transport, Verdict};

#[test]
fn reordered_zero_window_ack_with_equal_ack_number_wedges_the_sender() {
    let cfg = KernelConfig::default().recv_buf_cap(1000);
    let delivered = Rc::new(Cell::new(0usize));
    let delivered_srv = delivered.clone();

    let got = ClientServer::with_config(cfg)
        .server("server", async move {
            let l = TcpListener::bind("0.0.0.0:9000").await.unwrap();
            let (mut s, _) = l.accept().await.unwrap();
            let mut buf = vec![0u8; 4096];
            loop {
                match s.read(&mut buf).await {
                    Ok(0) | Err(_) => break,
                    Ok(n) => delivered_srv.set(delivered_srv.get() + n),
                }
            }
        })
        .run("client", async move {
            // Delay exactly one packet: the first pure zero-window ACK
            // the server sends. Everything else passes untouched.
            let held = Cell::new(false);
            rule(move |p: &Packet| {
                if let Transport::Tcp(seg) = &p.payload {
                    if seg.src_port == 9000
                        && seg.flags.ack
                        && !seg.flags.syn
                        && !seg.flags.fin
                        && seg.payload.is_empty()
                        && seg.window == 0
                        && !held.get()
                    {
                        held.set(true);
                        return Verdict::Deliver(Duration::from_millis(10));
                    }
                }
                Verdict::Pass
            })
            .forget();

            let mut c = TcpStream::connect("server:9000").await.unwrap();
            c.write_all(&[1u8; 1000]).await.unwrap();
            // Let the window update arrive, then the stale zero.
            tokio::time::sleep(Duration::from_millis(50)).await;
            assert_eq!(delivered.get(), 1000, "first kB must have been read");

            // The peer's buffer is empty and it said so. These bytes
            // are well inside the window the peer last advertised.
            c.write_all(&[2u8; 500]).await.unwrap();
            tokio::time::sleep(Duration::from_secs(5)).await;
            delivered.get()
        });

    assert_eq!(
        got, 1500,
        "the 500 bytes written after the reordered zero-window ACK were never transmitted \
         (peer buffer empty, sender believes window = 0 forever)"
    );
}

/// Control: the same schedule without the reordering delivers all bytes.
#[test]
fn control_without_reordering() {
    let cfg = KernelConfig::default().recv_buf_cap(1000);
    let delivered = Rc::new(Cell::new(0usize));
    let delivered_srv = delivered.clone();
    let got = ClientServer::with_config(cfg)
        .server("server", async move {
            let l = TcpListener::bind("0.0.0.0:9000").await.unwrap();
            let (mut s, _) = l.accept().await.unwrap();
            let mut buf = vec![0u8; 4096];
            loop {
                match s.read(&mut buf).await {
                    Ok(0) | Err(_) => break,
                    Ok(n) => delivered_srv.set(delivered_srv.get() + n),
                }
            }
        })
        .run("client", async move {
            let mut c = TcpStream::connect("server:9000").await.unwrap();
            c.write_all(&[1u8; 1000]).await.unwrap();
            tokio::time::sleep(Duration::from_millis(50)).await;
            c.write_all(&[2u8; 500]).await.unwrap();
            tokio::time::sleep(Duration::from_secs(5)).await;
            delivered.get()
        });
    assert_eq!(got, 1500);
}
