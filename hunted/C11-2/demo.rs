//! C11: once the configured simulation duration has been exceeded, `Sim::run`
//! must not report success for a client that was still unfinished.
//!
//! Clients registered after earlier (successful) runs keep succeeding long
//! after the configured duration, as long as each needs only one step:
//! `Sim::step` only looks at the duration *after* ticking, and only if a
//! client is still unfinished at the end of that step.
use std::time::Duration;
use turmoil::Builder;

#[test]
fn run_succeeds_long_after_duration_was_exceeded() {
    let tick = Duration::from_millis(10);
    let duration = Duration::from_millis(30);
    let mut sim = Builder::new()
        .tick_duration(tick)
        .simulation_duration(duration)
        .build();

    // Phase 1: finishes inside the duration. elapsed == 30ms afterwards.
    sim.client("a", async {
        tokio::time::sleep(Duration::from_millis(25)).await;
        Ok(())
    });
    sim.run().expect("phase 1 is within the duration");
    assert_eq!(sim.elapsed(), Duration::from_millis(30));

    // Phase 2: runs in the step that crosses the duration (30ms -> 40ms). The
    // property's step-granularity allowance covers this one.
    sim.client("b", async { Ok(()) });
    sim.run().expect("crossing step is allowed");
    assert_eq!(sim.elapsed(), Duration::from_millis(40));
    assert!(sim.elapsed() > duration);

    // Phase 3..: the duration (30ms) is already exceeded before these clients
    // are even polled for the first time; they complete at 45ms, 55ms, ...
    // of simulated time. None of these steps is "the step during which the
    // duration is crossed", so every one of these runs has to fail.
    let mut wrongly_ok = vec![];
    for i in 0..10 {
        sim.client(format!("late-{i}"), async move {
            // Does real work spread over virtual time inside the step.
            tokio::time::sleep(Duration::from_millis(5)).await;
            Ok(())
        });
        let before = sim.elapsed();
        if sim.run().is_ok() {
            wrongly_ok.push((i, before, sim.elapsed()));
        }
    }

    // Contrast: the very same simulation does enforce the duration for a
    // client that needs two steps instead of one.
    sim.client("two-steps", async {
        tokio::time::sleep(Duration::from_millis(15)).await;
        Ok(())
    });
    assert!(sim.run().is_err(), "two-step client is (correctly) timed out");

    assert!(
        wrongly_ok.is_empty(),
        "simulation_duration = {duration:?}, yet Sim::run returned Ok for clients that started \
         and finished after it had been exceeded: (client, elapsed before, elapsed after) = {wrongly_ok:?}"
    );
}
