//! C16 hunt #3: an MTU that leaves no room for TCP payload (MSS == 0)
//! turns segmentation into an endless loop.
//!
//! `mss_for` computes `mtu - ip_hdr - tcp_hdr` with saturating
//! subtraction, so an MTU at or below the header size gives MSS 0.
//! `segment_one` then takes `n = unsent.min(mss).min(wnd) == 0`, emits an
//! empty "data" segment, leaves `snd_nxt` where it was and goes round
//! again: `Kernel::egress` never returns and `outbound` grows without
//! bound. With `loopback_mtu = 50` the very same configuration works over
//! IPv4 (MSS 10) and wedges the whole simulation over IPv6 (50 - 40 - 20).
//!
//! The simulation runs on a helper thread so the test can fail instead of
//! hanging / exhausting memory.

use std::net::{Ipv6Addr, SocketAddr};
use std::sync::mpsc;
use std::time::Duration;

use tokio::io::{AsyncReadExt, AsyncWriteExt};
use turmoil_net::fixture;
use turmoil_net::shim::tokio::net::{TcpListener, TcpStream};
use turmoil_net::KernelConfig;

fn transfer(addr: SocketAddr, mtu: u32) -> Option<Vec<u8>> {
    let (tx, rx) = mpsc::channel();
    std::thread::spawn(move || {
        let cfg = KernelConfig::default().loopback_mtu(mtu);
        let got = fixture::lo_with_config(cfg, async move {
            let l = TcpListener::bind(addr).await.unwrap();
            let server = tokio::task::spawn_local(async move {
                let (mut s, _) = l.accept().await.unwrap();
                let mut buf = vec![0u8; 25];
                s.read_exact(&mut buf).await.unwrap();
                buf
            });
            let mut c = TcpStream::connect(addr).await.unwrap();
            c.write_all(&[7u8; 25]).await.unwrap();
            server.await.unwrap()
        });
        let _ = tx.send(got);
    });
    rx.recv_timeout(Duration::from_millis(1500)).ok()
}

#[test]
fn ipv4_works_with_mtu_50() {
    // MSS = 50 - 20 - 20 = 10: three segments, fine.
    let got = transfer("127.0.0.1:9000".parse().unwrap(), 50);
    assert_eq!(got, Some(vec![7u8; 25]));
}

#[test]
fn ipv6_works_with_mtu_61() {
    // MSS = 61 - 40 - 20 = 1: twenty-five one-byte segments, fine.
    let got = transfer(SocketAddr::new(Ipv6Addr::LOCALHOST.into(), 9000), 61);
    assert_eq!(got, Some(vec![7u8; 25]));
}

#[test]
fn mss_zero_ipv6_mtu_50_must_not_wedge_the_simulation() {
    // MSS = 50 - 40 - 20 -> 0. Whatever the right answer is (error out,
    // block the writer), spinning forever inside egress is not it.
    let got = transfer(SocketAddr::new(Ipv6Addr::LOCALHOST.into(), 9000), 50);
    if got.is_none() {
        // The helper thread is still spinning and allocating; make sure
        // the process dies promptly after reporting.
        use std::io::Write;
        let _ = std::io::stderr().write_all(
            b"\nFAILED: simulation did not finish within 1.5 s: Kernel::egress is stuck in \
              segment_one emitting zero-length segments (MSS == 0)\n",
        );
        std::process::exit(101);
    }
    assert_eq!(got, Some(vec![7u8; 25]));
}
