//! Verdict::Deliver(d) with a very large d ("hold forever") crashes the
//! fixture scheduler: `self.now + delay` overflows Duration.
use std::time::Duration;

use turmoil_net::fixture::ClientServer;
use turmoil_net::shim::tokio::net::UdpSocket;
use turmoil_net::{rule, Packet, Verdict};

#[test]
fn deliver_duration_max_holds_the_packet() {
    let echoed = ClientServer::new()
        .server("server", async {
            let s = UdpSocket::bind("0.0.0.0:9000").await.unwrap();
            let mut b = [0u8; 8];
            loop {
                let (n, from) = s.recv_from(&mut b).await.unwrap();
                s.send_to(&b[..n], from).await.unwrap();
            }
        })
        .run("client", async {
            // Hold everything "forever": deliver after Duration::MAX.
            let hold = rule(|_: &Packet| Verdict::Deliver(Duration::MAX));
            let c = UdpSocket::bind("0.0.0.0:0").await.unwrap();
            c.send_to(b"held", "server:9000").await.unwrap();
            let mut b = [0u8; 8];
            // Must not arrive earlier than d after it left the host, i.e. never.
            assert!(
                tokio::time::timeout(Duration::from_millis(20), c.recv_from(&mut b))
                    .await
                    .is_err()
            );
            drop(hold);
            c.send_to(b"free", "server:9000").await.unwrap();
            tokio::time::timeout(Duration::from_millis(20), c.recv_from(&mut b))
                .await
                .is_ok()
        });
    assert!(echoed);
}
