//! C06 candidate 1: ClientServer server that hands each accepted
//! connection to `tokio::spawn` (the pattern the crate's own
//! tests/rules.rs uses). The spawned task is not wrapped in the
//! fixture's HostScoped, so its socket calls go to whichever host was
//! polled last. No faults at all: the client merely pauses between
//! connect and write.
use std::time::Duration;

use tokio::io::{AsyncReadExt, AsyncWriteExt};
use turmoil_net::fixture::ClientServer;
use turmoil_net::shim::tokio::net::{TcpListener, TcpStream};

#[test]
fn spawned_echo_handler_with_idle_client() {
    let got = ClientServer::new()
        .server("server", async move {
            let l = TcpListener::bind("0.0.0.0:9000").await.unwrap();
            loop {
                let (mut s, _) = l.accept().await.unwrap();
                tokio::spawn(async move {
                    let mut buf = [0u8; 16];
                    loop {
                        match s.read(&mut buf).await {
                            Ok(0) | Err(_) => break,
                            Ok(n) => {
                                if s.write_all(&buf[..n]).await.is_err() {
                                    break;
                                }
                            }
                        }
                    }
                });
            }
        })
        .run("client", async move {
            let mut c = TcpStream::connect("server:9000").await.unwrap();
            // The application thinks for a while before sending.
            tokio::time::sleep(Duration::from_millis(5)).await;
            c.write_all(b"hello").await.unwrap();
            let mut buf = [0u8; 5];
            let r = tokio::time::timeout(Duration::from_millis(500), c.read_exact(&mut buf)).await;
            r.map(|r| r.map(|_| buf))
        });
    let buf = got.expect("echo never arrived: client left waiting forever").unwrap();
    assert_eq!(&buf, b"hello");
}

/// Control: identical traffic, handler awaited inline in the server
/// future (so it is host-scoped). Passes.
#[test]
fn control_inline_echo_handler_with_idle_client() {
    let got = ClientServer::new()
        .server("server", async move {
            let l = TcpListener::bind("0.0.0.0:9000").await.unwrap();
            loop {
                let (mut s, _) = l.accept().await.unwrap();
                let mut buf = [0u8; 16];
                loop {
                    match s.read(&mut buf).await {
                        Ok(0) | Err(_) => break,
                        Ok(n) => {
                            if s.write_all(&buf[..n]).await.is_err() {
                                break;
                            }
                        }
                    }
                }
            }
        })
        .run("client", async move {
            let mut c = TcpStream::connect("server:9000").await.unwrap();
            tokio::time::sleep(Duration::from_millis(5)).await;
            c.write_all(b"hello").await.unwrap();
            let mut buf = [0u8; 5];
            let r = tokio::time::timeout(Duration::from_millis(500), c.read_exact(&mut buf)).await;
            r.map(|r| r.map(|_| buf))
        });
    let buf = got.expect("echo never arrived").unwrap();
    assert_eq!(&buf, b"hello");
}
use std::cell::RefCell;
use std::rc::Rc;


#[test]
fn spawned_writer_half_crosses_hosts() {
    let server_read: Rc<RefCell<Vec<u8>>> = Rc::new(RefCell::new(Vec::new()));
    let sr = server_read.clone();
    let client_read = ClientServer::new()
        .server("server", async move {
            let l = TcpListener::bind("0.0.0.0:9000").await.unwrap();
            let (s, _) = l.accept().await.unwrap();
            let (mut rd, mut wr) = s.into_split();
            tokio::spawn(async move {
                tokio::time::sleep(Duration::from_millis(7)).await;
                let _ = wr.write_all(b"SERVER").await;
                let _ = wr.shutdown().await;
            });
            let mut buf = [0u8; 16];
            loop {
                match rd.read(&mut buf).await {
                    Ok(0) | Err(_) => break,
                    Ok(n) => sr.borrow_mut().extend_from_slice(&buf[..n]),
                }
            }
            std::future::pending::<()>().await;
        })
        .run("client", async move {
            // One earlier socket so that the stream's fd number equals
            // the fd number of the server's accepted child.
            let _other = TcpListener::bind("0.0.0.0:1").await.unwrap();
            let mut c = TcpStream::connect("server:9000").await.unwrap();
            // The client writes nothing. It just keeps busy for a while
            // and then reads what the server sent.
            for _ in 0..20 {
                tokio::time::sleep(Duration::from_millis(1)).await;
            }
            let mut got = Vec::new();
            let mut buf = [0u8; 16];
            loop {
                match tokio::time::timeout(Duration::from_millis(200), c.read(&mut buf)).await {
                    Ok(Ok(0)) | Ok(Err(_)) | Err(_) => break,
                    Ok(Ok(n)) => got.extend_from_slice(&buf[..n]),
                }
            }
            got
        });
    let server_read = server_read.borrow().clone();
    assert!(
        server_read.is_empty(),
        "server read {:?} on a connection whose client wrote nothing (client read {:?})",
        String::from_utf8_lossy(&server_read),
        String::from_utf8_lossy(&client_read),
    );
    assert_eq!(client_read, b"SERVER");
}
