//! C02 hunt 2: a stream socket is identified by its (local, remote) address
//! pair only. When an ephemeral port is handed out again (small
//! `ephemeral_ports` range here; 16384 connects with the default range) a
//! data segment of the previous, gracefully closed connection that is still on
//! the (held) link is delivered into the new connection: the new reader reads
//! bytes nobody wrote on its connection, and loses the bytes that were.

use std::cell::Cell;
use std::rc::Rc;
use std::time::Duration;

use tokio::io::{AsyncReadExt, AsyncWriteExt};
use turmoil::net::{TcpListener, TcpStream};
use turmoil::{Builder, Protocol, Segment};

fn deliver_where(sim: &turmoil::Sim<'_>, want: impl Fn(&Protocol) -> bool) -> usize {
    let mut n = 0;
    sim.links(|links| {
        for link in links {
            for sent in link {
                if want(sent.protocol()) {
                    sent.deliver();
                    n += 1;
                }
            }
        }
    });
    n
}

#[test]
fn stale_segment_of_previous_connection_enters_new_stream() -> turmoil::Result {
    scenario(true)
}

/// Same with the default ephemeral range (49152..=65535): the port counter
/// wraps after 16384 allocations (connects, port-0 binds).
#[test]
fn stale_segment_default_port_range() -> turmoil::Result {
    scenario(false)
}

fn scenario(small_range: bool) -> turmoil::Result {
    let mut builder = Builder::new();
    if small_range {
        builder.ephemeral_ports(49152..=49152);
    }
    let mut sim = builder
        .min_message_latency(Duration::from_millis(1))
        .max_message_latency(Duration::from_millis(2))
        .build();

    let phase = Rc::new(Cell::new(0u32));
    let server_read: Rc<Cell<Option<Vec<u8>>>> = Rc::new(Cell::new(None));

    let sr = server_read.clone();
    sim.host("server", move || {
        let sr = sr.clone();
        async move {
            let listener = TcpListener::bind("0.0.0.0:9000").await?;

            // Connection 1: the server has nothing to say and closes at once
            // (graceful: nothing was received, nothing is unread).
            let (s1, _) = listener.accept().await?;
            drop(s1);

            // Connection 2: read everything the peer writes.
            let (mut s2, _) = listener.accept().await?;
            let mut got = Vec::new();
            s2.read_to_end(&mut got).await?;
            sr.set(Some(got));
            Ok(())
        }
    });

    let ph = phase.clone();
    sim.client("client", async move {
        // Connection 1.
        let mut c1 = TcpStream::connect("server:9000").await?;
        let port1 = c1.local_addr()?.port();
        tokio::time::sleep(Duration::from_millis(10)).await; // server's FIN arrives
        ph.set(1);
        while ph.get() != 2 {
            tokio::time::sleep(Duration::from_millis(1)).await;
        }
        // The link is held now. Write, then close gracefully (the only
        // inbound item is the server's FIN; no data is unread).
        c1.write_all(b"OLD!").await?;
        drop(c1);

        if !small_range {
            // 16383 other port allocations on this host in the meantime.
            for _ in 0..16383 {
                drop(turmoil::net::UdpSocket::bind("0.0.0.0:0").await?);
            }
        }

        // Connection 2 gets the same ephemeral port, hence the same pair.
        let mut c2 = TcpStream::connect("server:9000").await?;
        assert_eq!(c2.local_addr()?.port(), port1);
        ph.set(3);
        while ph.get() != 4 {
            tokio::time::sleep(Duration::from_millis(1)).await;
        }
        c2.write_all(b"NEW!").await?;
        c2.shutdown().await?;
        tokio::time::sleep(Duration::from_millis(50)).await;
        Ok(())
    });

    // Phase 1: connection 1 established and idle. Hold the link.
    while phase.get() != 1 {
        sim.step()?;
    }
    sim.hold("client", "server");
    phase.set(2);

    // Let the client write "OLD!", drop c1 and start connecting c2. All three
    // messages (Data, Fin, Syn) sit on the held link.
    for _ in 0..5 {
        sim.step()?;
    }
    // Deliver only the SYN: one admissible delivery order of the in-flight
    // messages.
    assert_eq!(
        deliver_where(&sim, |p| matches!(p, Protocol::Tcp(Segment::Syn(_)))),
        1
    );
    while phase.get() != 3 {
        sim.step()?;
    }
    // Connection 2 is established on both ends. Now the rest of the held
    // messages (connection 1's Data and Fin) are released.
    sim.release("client", "server");
    phase.set(4);

    sim.run()?;

    let got = server_read.take().expect("server finished reading");
    assert_eq!(
        String::from_utf8_lossy(&got),
        "NEW!",
        "connection 2 must deliver exactly what was written on connection 2"
    );
    Ok(())
}
