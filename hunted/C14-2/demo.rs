//! C14 hypothesis: the TCP SYN-ACK (the accepting host's answer to a
//! connection request) is a message from the listener's host to the
//! connecting host. It is traced as `Send`/`Recv` of "TCP SYN-ACK", but it
//! does not travel over the link: it is handed over through a oneshot channel
//! and reaches the connecting host with no latency at all.

use std::cell::RefCell;
use std::net::{IpAddr, Ipv4Addr};
use std::rc::Rc;
use std::time::Duration;

use turmoil::net::{TcpListener, TcpStream};
use turmoil::{Builder, Result};

const PORT: u16 = 9001;

#[test]
fn syn_ack_ignores_link_latency() -> Result {
    let tick = Duration::from_millis(1);
    let latency = Duration::from_millis(100);

    let mut sim = Builder::new()
        .tick_duration(tick)
        .min_message_latency(latency)
        .max_message_latency(latency)
        .rng_seed(1)
        .build();

    // virtual time at which the server answered the SYN (accept sends the
    // SYN-ACK) and at which the client saw the answer (connect returned)
    let syn_ack_sent = Rc::new(RefCell::new(None));
    let syn_ack_received = Rc::new(RefCell::new(None));
    let syn_sent = Rc::new(RefCell::new(None));

    let s = syn_ack_sent.clone();
    sim.host("server", move || {
        let s = s.clone();
        async move {
            let listener = TcpListener::bind((IpAddr::from(Ipv4Addr::UNSPECIFIED), PORT)).await?;
            let (_stream, _) = listener.accept().await?;
            *s.borrow_mut() = Some(turmoil::sim_elapsed().unwrap());
            std::future::pending::<()>().await;
            Ok(())
        }
    });

    let r = syn_ack_received.clone();
    let q = syn_sent.clone();
    sim.client("client", async move {
        tokio::time::sleep(Duration::from_millis(10)).await;
        *q.borrow_mut() = Some(turmoil::sim_elapsed().unwrap());
        let _stream = TcpStream::connect(("server", PORT)).await?;
        *r.borrow_mut() = Some(turmoil::sim_elapsed().unwrap());
        Ok(())
    });

    sim.run()?;

    let syn_sent = syn_sent.borrow().unwrap();
    let sent = syn_ack_sent.borrow().unwrap();
    let received = syn_ack_received.borrow().unwrap();

    // the SYN itself honours the latency
    let syn_delay = sent - syn_sent;
    assert!(
        syn_delay >= latency - tick && syn_delay <= latency + tick,
        "SYN delay {syn_delay:?}"
    );

    // the answer does not
    let delay = received.as_nanos() as i128 - sent.as_nanos() as i128;
    assert!(
        delay >= (latency - tick).as_nanos() as i128,
        "fixed link latency {latency:?}, tick {tick:?}: SYN sent at {syn_sent:?}, SYN-ACK sent by \
         the server at {sent:?}, received by the client at {received:?}: delay {delay}ns, \
         connect() took {:?} on a link whose round trip is {:?}",
        received - syn_sent,
        latency * 2
    );
    Ok(())
}
