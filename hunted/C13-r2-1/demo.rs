//! C13 hunt: backlog accounting on a wildcard listener of a multi-IP host.
//!
//! backlog = 1, the server never accepts. Control: two connects to the SAME
//! server IP -> exactly one succeeds, the other's SYN is dropped (TimedOut).
//! Candidate: two connects in the same tick to the two DIFFERENT IPs of the
//! same wildcard listener -> both succeed, the accept queue holds 2 > backlog.

use std::io::ErrorKind;
use std::net::IpAddr;

use turmoil_net::fixture::ClientServer;
use turmoil_net::shim::tokio::net::{TcpListener, TcpStream};
use turmoil_net::{netstat, KernelConfig, NetstatState};

fn ips() -> [IpAddr; 2] {
    ["10.0.0.1".parse().unwrap(), "10.0.0.2".parse().unwrap()]
}

fn run(second_target: &'static str) -> (usize, usize) {
    ClientServer::with_config(KernelConfig::default().default_backlog(1))
        .server(ips(), async move {
            let _l = TcpListener::bind("0.0.0.0:9000").await.unwrap();
            std::future::pending::<()>().await;
        })
        .run("10.0.1.1".parse::<IpAddr>().unwrap(), async move {
            let (a, b) = tokio::join!(
                TcpStream::connect("10.0.0.1:9000"),
                TcpStream::connect(second_target),
            );
            let ok = [&a, &b].iter().filter(|r| r.is_ok()).count();
            for r in [&a, &b] {
                if let Err(e) = r {
                    assert_eq!(e.kind(), ErrorKind::TimedOut);
                }
            }
            // let the handshake ACKs reach the server
            tokio::time::sleep(std::time::Duration::from_millis(5)).await;
            let queued = netstat("10.0.0.1")
                .entries
                .iter()
                .filter(|e| e.state == Some(NetstatState::Established))
                .count();
            (ok, queued)
        })
}

#[test]
fn control_same_ip_backlog_one_admits_one() {
    assert_eq!(run("10.0.0.1:9000"), (1, 1));
}

#[test]
fn two_ips_backlog_one_must_admit_one() {
    let (ok, queued) = run("10.0.0.2:9000");
    assert_eq!(
        (ok, queued),
        (1, 1),
        "backlog 1, nothing accepted: {ok} connects succeeded, {queued} unaccepted children queued"
    );
}
