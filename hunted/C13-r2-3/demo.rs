//! C13 hunt: connect to a loopback port nobody listens on, where the port is
//! the one the kernel auto-binds for this very socket (the allocator is
//! deterministic: the first ephemeral port of a fresh host is 49152).

use std::io::ErrorKind;
use std::time::Duration;

use turmoil_net::fixture;
use turmoil_net::shim::tokio::net::TcpStream;

#[test]
fn control_other_port_is_refused() {
    fixture::lo(async {
        let e = TcpStream::connect("127.0.0.1:50000").await.unwrap_err();
        assert_eq!(e.kind(), ErrorKind::ConnectionRefused);
    });
}

#[test]
fn connect_to_unlistened_first_ephemeral_port_is_refused() {
    fixture::lo(async {
        let r = tokio::time::timeout(
            Duration::from_millis(500),
            TcpStream::connect("127.0.0.1:49152"),
        )
        .await;
        match r {
            Ok(Err(e)) => assert_eq!(
                e.kind(),
                ErrorKind::ConnectionRefused,
                "nothing listens on 127.0.0.1:49152"
            ),
            other => panic!("nothing listens on 127.0.0.1:49152, got {other:?}"),
        }
    });
}

/// Realistic shape: a client retrying against a local service that is not up
/// yet. Every attempt consumes one ephemeral port; attempt 848 is auto-bound
/// to 50000 itself and stalls into TimedOut instead of ConnectionRefused.
#[test]
fn retrying_against_a_down_local_service_is_always_refused() {
    fixture::lo(async {
        for i in 0..1000 {
            let e = TcpStream::connect("127.0.0.1:50000").await.unwrap_err();
            assert_eq!(e.kind(), ErrorKind::ConnectionRefused, "attempt {i}");
        }
    });
}
