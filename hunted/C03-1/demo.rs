//! C03 hunt #1: the TCP SYN-ACK crosses an explicitly partitioned direction.
//!
//! `TcpListener::accept` answers a queued SYN by completing a oneshot channel
//! that travelled inside the SYN (`syn.ack.send(())`), i.e. the SYN-ACK that
//! the server "sends" to the client never goes through the topology and so is
//! never subject to the state of the server -> client direction.

use std::cell::Cell;
use std::net::{IpAddr, Ipv4Addr};
use std::rc::Rc;
use std::time::Duration;

use turmoil::net::{TcpListener, TcpStream};
use turmoil::Builder;

const PORT: u16 = 1738;

/// server -> client is partitioned one-way (from the Sim handle, before any
/// traffic). The client's SYN travels over the healthy client -> server
/// direction; everything the server sends back must be lost, so `connect`
/// must never complete.
#[test]
fn syn_ack_crosses_oneway_partition() {
    let mut sim = Builder::new()
        .fail_rate(0.0)
        .min_message_latency(Duration::from_millis(1))
        .max_message_latency(Duration::from_millis(1))
        .build();

    sim.host("server", || async {
        let listener = TcpListener::bind((IpAddr::from(Ipv4Addr::UNSPECIFIED), PORT)).await?;
        loop {
            let (stream, _) = listener.accept().await?;
            // keep the stream alive
            std::mem::forget(stream);
        }
    });

    let connected = Rc::new(Cell::new(false));
    let c = connected.clone();
    sim.client("client", async move {
        let res = tokio::time::timeout(
            Duration::from_secs(5),
            TcpStream::connect(("server", PORT)),
        )
        .await;
        if let Ok(Ok(_stream)) = res {
            c.set(true);
        }
        Ok(())
    });

    // Nothing the server sends may reach the client.
    sim.partition_oneway("server", "client");

    sim.run().unwrap();

    assert!(
        !connected.get(),
        "connect() completed: the server's SYN-ACK was delivered to the client \
         although server -> client was explicitly partitioned the whole time"
    );
}

/// Full two-way partition imposed from the Sim handle *after* the SYN has
/// arrived in the listener's backlog but *before* the server calls accept().
/// The SYN-ACK is then sent (and received) entirely during the partition.
#[test]
fn syn_ack_sent_during_full_partition() {
    let mut sim = Builder::new()
        .fail_rate(0.0)
        .min_message_latency(Duration::from_millis(1))
        .max_message_latency(Duration::from_millis(1))
        .build();

    sim.host("server", || async {
        let listener = TcpListener::bind((IpAddr::from(Ipv4Addr::UNSPECIFIED), PORT)).await?;
        // Let the SYN sit in the backlog for a while.
        tokio::time::sleep(Duration::from_millis(500)).await;
        let (stream, _) = listener.accept().await?;
        std::mem::forget(stream);
        std::future::pending::<()>().await;
        Ok(())
    });

    let connected_at = Rc::new(Cell::new(None));
    let c = connected_at.clone();
    sim.client("client", async move {
        let res = tokio::time::timeout(
            Duration::from_secs(5),
            TcpStream::connect(("server", PORT)),
        )
        .await;
        if let Ok(Ok(_stream)) = res {
            c.set(Some(turmoil::sim_elapsed().unwrap()));
        }
        Ok(())
    });

    // Run 100 ms: the SYN (1 ms latency) has long arrived at the server.
    while sim.elapsed() < Duration::from_millis(100) {
        sim.step().unwrap();
    }
    assert!(connected_at.get().is_none());

    // From now on the two hosts are explicitly partitioned in both directions,
    // and they are never repaired.
    sim.partition("client", "server");

    sim.run().unwrap();

    assert!(
        connected_at.get().is_none(),
        "connect() completed at {:?}: the SYN-ACK the server sent at ~500ms, while \
         client <-> server was explicitly partitioned (since 100ms, never repaired), \
         was delivered to the client",
        connected_at.get()
    );
}
