//! C17 hunt #3: a UDP socket bound to 127.0.0.1 can send to another host; the
//! datagram travels with source 127.0.0.1 and is accepted on the remote host
//! by a socket that is connected to *that host's own* 127.0.0.1:5000.

use std::time::Duration;

use turmoil_net::fixture::ClientServer;
use turmoil_net::shim::tokio::net::UdpSocket;

#[test]
fn connected_udp_socket_accepts_only_its_own_peer() {
    let (tx, rx) = tokio::sync::oneshot::channel::<Option<(Vec<u8>, std::net::SocketAddr)>>();
    let send_res = ClientServer::new()
        .server("server", async move {
            // Local service on the server host and a local consumer that is
            // connected to it over loopback.
            let _svc = UdpSocket::bind("127.0.0.1:5000").await.unwrap();
            let s = UdpSocket::bind("0.0.0.0:7000").await.unwrap();
            s.connect("127.0.0.1:5000").await.unwrap();
            let mut buf = [0u8; 16];
            let r = tokio::time::timeout(Duration::from_millis(200), s.recv_from(&mut buf)).await;
            let _ = tx.send(r.ok().map(|r| {
                let (n, from) = r.unwrap();
                (buf[..n].to_vec(), from)
            }));
            std::future::pending::<()>().await;
        })
        .run("client", async move {
            let u = UdpSocket::bind("127.0.0.1:5000").await.unwrap();
            let r = u.send_to(b"spoof", "server:7000").await;
            let got = rx.await.unwrap();
            (r.map_err(|e| e.kind()), got)
        });
    let (sent, got) = send_res;
    assert!(
        got.is_none(),
        "socket connected to the server's own 127.0.0.1:5000 received {:?} from another host (send result {:?})",
        got,
        sent
    );
}
