//! C08 hunt #1: the TCP handshake reply (SYN-ACK) crosses a held link.
//!
//! The client's SYN reaches the server host while the link is healthy, but
//! the server application has not called `accept()` yet. The link is then
//! held. When the server finally accepts, the SYN-ACK is "sent" to the
//! client, yet it is never put on the link: `connect()` on the client
//! completes while the hold lasts, and the links iterator never shows the
//! handshake reply.

use std::cell::Cell;
use std::net::{IpAddr, Ipv4Addr};
use std::rc::Rc;
use std::time::Duration;

use tokio::sync::Notify;
use turmoil::net::{TcpListener, TcpStream};
use turmoil::Builder;

fn in_flight(sim: &turmoil::Sim<'_>) -> usize {
    let mut n = 0;
    sim.links(|links| {
        for link in links {
            n += link.count();
        }
    });
    n
}

#[test]
fn syn_ack_is_delivered_across_a_held_link() -> turmoil::Result {
    let lat = Duration::from_millis(3);
    let mut sim = Builder::new()
        .min_message_latency(lat)
        .max_message_latency(lat)
        .build();

    let go = Rc::new(Notify::new());
    let go_srv = go.clone();
    let connected = Rc::new(Cell::new(false));
    let connected_c = connected.clone();
    let accepted = Rc::new(Cell::new(false));
    let accepted_s = accepted.clone();

    sim.client("server", async move {
        let listener = TcpListener::bind((IpAddr::V4(Ipv4Addr::UNSPECIFIED), 1234)).await?;
        // The application is slow to accept.
        go_srv.notified().await;
        let (_s, _) = listener.accept().await?;
        accepted_s.set(true);
        // keep the stream open
        tokio::time::sleep(Duration::from_secs(3600)).await;
        Ok(())
    });

    sim.client("client", async move {
        let _s = TcpStream::connect(("server", 1234)).await?;
        connected_c.set(true);
        tokio::time::sleep(Duration::from_secs(3600)).await;
        Ok(())
    });

    // Let the SYN travel to the server host (3 ms latency, 1 ms ticks).
    for _ in 0..10 {
        sim.step()?;
    }
    assert_eq!(in_flight(&sim), 0, "the SYN has been delivered");
    assert!(!connected.get(), "nobody accepted yet");

    // Hold the link, *then* let the server accept.
    sim.hold("client", "server");
    go.notify_one();

    let mut seen_on_link = 0;
    for _ in 0..50 {
        sim.step()?;
        seen_on_link = seen_on_link.max(in_flight(&sim));
    }

    assert!(accepted.get(), "server accepted (sent its SYN-ACK) during the hold");
    // The SYN-ACK was sent server -> client while the link is held, so it has
    // to sit on the link (visible through the links iterator) and must not
    // reach the client before release.
    assert!(
        !connected.get(),
        "connect() completed while the client<->server link is held \
         (SYN-ACK delivered across a held link; messages seen on the link: {seen_on_link})"
    );

    sim.release("client", "server");
    for _ in 0..10 {
        sim.step()?;
    }
    assert!(connected.get());
    Ok(())
}
