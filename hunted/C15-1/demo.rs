//! C15 hunt 1: a TcpStream whose peer reset it is still held by the
//! application, yet its local port is handed out again by the next connect.
use std::time::Duration;

use tokio::io::{AsyncReadExt, AsyncWriteExt};
use turmoil::net::{TcpListener, TcpStream};
use turmoil::{Builder, Result};

const PORT: u16 = 80;

/// Variant B: the peer resets the first connection (drops it with unread
/// data). The client still owns the `TcpStream` object, it has not been
/// dropped and the host has not crashed.
#[test]
fn port_of_held_stream_reassigned_after_peer_reset() -> Result {
    let mut sim = Builder::new()
        .tick_duration(Duration::from_millis(1))
        .min_message_latency(Duration::from_millis(1))
        .max_message_latency(Duration::from_millis(1))
        .ephemeral_ports(49152..=49154)
        .build();

    sim.host("server", || async {
        let listener = TcpListener::bind(("0.0.0.0", PORT)).await?;
        // first connection: wait for the client's byte to be queued, then
        // drop without reading it -> RST
        let (first, _) = listener.accept().await?;
        tokio::time::sleep(Duration::from_millis(20)).await;
        drop(first);

        // second connection: echo what arrives
        let (mut second, _) = listener.accept().await?;
        let mut buf = [0u8; 64];
        loop {
            let n = second.read(&mut buf).await?;
            if n == 0 {
                break;
            }
            second.write_all(&buf[..n]).await?;
        }
        std::future::pending::<()>().await;
        Ok(())
    });

    sim.client("client", async {
        let mut held = TcpStream::connect(("server", PORT)).await?;
        let held_port = held.local_addr()?.port();
        held.write_all(b"x").await?;
        // let the server reset us
        tokio::time::sleep(Duration::from_millis(50)).await;

        // use up the rest of the (tiny) ephemeral range with sockets that stay open
        let udp = turmoil::net::UdpSocket::bind(("0.0.0.0", 0)).await?;
        let lst = TcpListener::bind(("0.0.0.0", 0)).await?;
        assert_ne!(udp.local_addr()?.port(), held_port);
        assert_ne!(lst.local_addr()?.port(), held_port);

        // `held` is still alive (not dropped, host not crashed)
        let fresh = TcpStream::connect(("server", PORT)).await?;
        let fresh_port = fresh.local_addr()?.port();

        assert_eq!(held.local_addr()?.port(), held_port);
        assert_ne!(
            fresh_port, held_port,
            "ephemeral port {held_port} handed out to a new connect while a TcpStream \
             that was never dropped still reports it as its local port"
        );
        drop(udp);
        drop(lst);
        Ok(())
    });

    sim.run()
}

/// Consequence: dropping the old stream object tears down the new connection,
/// because both objects alias the same (local, remote) socket entry.
#[test]
fn dropping_old_stream_kills_new_connection_on_same_port() -> Result {
    let mut sim = Builder::new()
        .tick_duration(Duration::from_millis(1))
        .min_message_latency(Duration::from_millis(1))
        .max_message_latency(Duration::from_millis(1))
        .ephemeral_ports(49152..=49152)
        .build();

    sim.host("server", || async {
        let listener = TcpListener::bind(("0.0.0.0", PORT)).await?;
        let (first, _) = listener.accept().await?;
        tokio::time::sleep(Duration::from_millis(20)).await;
        drop(first);

        let (mut second, _) = listener.accept().await?;
        let mut buf = [0u8; 64];
        loop {
            let n = second.read(&mut buf).await?;
            if n == 0 {
                break;
            }
            second.write_all(&buf[..n]).await?;
        }
        std::future::pending::<()>().await;
        Ok(())
    });

    sim.client("client", async {
        let mut held = TcpStream::connect(("server", PORT)).await?;
        held.write_all(b"x").await?;
        tokio::time::sleep(Duration::from_millis(50)).await;

        let mut fresh = TcpStream::connect(("server", PORT)).await?;
        fresh.write_all(b"a").await?;
        let mut b = [0u8; 1];
        fresh.read_exact(&mut b).await?;
        assert_eq!(&b, b"a");

        // closing the *old* stream must not affect the new one
        drop(held);
        tokio::time::sleep(Duration::from_millis(10)).await;

        fresh
            .write_all(b"b")
            .await
            .expect("new connection must survive the drop of the old stream object");
        fresh.read_exact(&mut b).await?;
        assert_eq!(&b, b"b");
        Ok(())
    });

    sim.run()
}

/// Variant A (split halves): dropping the OwnedReadHalf with unread data
/// removes the socket entry although the OwnedWriteHalf is still alive. The
/// port is reassigned, and bytes written through the old write half are
/// delivered inside the *new* connection.
#[test]
fn old_write_half_injects_into_new_connection_on_same_port() -> Result {
    let mut sim = Builder::new()
        .tick_duration(Duration::from_millis(1))
        .min_message_latency(Duration::from_millis(1))
        .max_message_latency(Duration::from_millis(1))
        .ephemeral_ports(49152..=49152)
        .build();

    sim.host("server", || async {
        let listener = TcpListener::bind(("0.0.0.0", PORT)).await?;
        // first connection: greet, then go away quietly
        let (mut first, _) = listener.accept().await?;
        first.write_all(b"greeting").await?;
        let mut sink = [0u8; 8];
        let _ = first.read(&mut sink).await; // ends with reset
        drop(first);

        // second connection: expects exactly the 3 bytes "new"
        let (mut second, _) = listener.accept().await?;
        let mut buf = [0u8; 3];
        second.read_exact(&mut buf).await?;
        assert_eq!(
            &buf, b"new",
            "second connection received bytes written through the write half of the first"
        );
        Ok(())
    });

    sim.client("client", async {
        let first = TcpStream::connect(("server", PORT)).await?;
        let port = first.local_addr()?.port();
        let (r, mut w) = first.into_split();
        tokio::time::sleep(Duration::from_millis(10)).await; // greeting is queued
        drop(r); // unread data -> RST, socket entry removed; `w` still alive

        let mut second = TcpStream::connect(("server", PORT)).await?;
        assert_eq!(second.local_addr()?.port(), port); // same port, `w` still alive
        assert_eq!(w.local_addr()?.port(), port);

        // the old half should be broken; instead it writes into `second`
        let res = w.write_all(b"OLD").await;
        second.write_all(b"new").await?;
        tokio::time::sleep(Duration::from_millis(20)).await;
        assert!(res.is_err(), "write through the half of a reset connection succeeded");
        Ok(())
    });

    sim.run()
}
