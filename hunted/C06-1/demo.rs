//! C06 hunt, finding 1: retransmit attempts are charged while the peer's
//! receive window is closed and nothing can be (usefully) re-emitted, and they
//! are carried over to the bytes that wait behind the closed window. Those
//! bytes therefore do not get `1 + retx_max` transmissions once the window
//! reopens but only 5 (or 4): `retx_max` (5) drops with no delay at all - or
//! 4 drops plus one SYN-ACK kept in flight for 5 rounds - abort the connection
//! with `TimedOut`; the reader keeps 8 of 16 bytes and waits forever.
//!
//! Mechanism: SYN / SYN-ACK always advertise `DEFAULT_WINDOW` (65535) instead
//! of the real receive window, so with `recv_buf_cap = 8` the first 16-byte
//! segment overshoots: 8 bytes are accepted, the tail stays "in flight" with
//! `snd_wnd == 0`. Three rounds later `check_retx` books a retransmit attempt
//! (`retx_attempts += 1`, `snd_nxt = snd_una`) although `segment_one` emits
//! nothing into the closed window. `retx_attempts` is only cleared by ACK
//! progress - not by the window update - so when the window reopens bytes
//! [8..16) start with one attempt already spent. A late SYN-ACK duplicate
//! (window field 65535 again) makes the rewind re-emit the tail into the
//! still full buffer and burns a second attempt without any packet loss.

use std::cell::RefCell;
use std::rc::Rc;
use std::time::Duration;

use tokio::io::{AsyncReadExt, AsyncWriteExt};
use turmoil_net::fixture::ClientServer;
use turmoil_net::shim::tokio::net::{TcpListener, TcpStream};
use turmoil_net::{rule, KernelConfig, Packet, Transport, Verdict};

const MSG: &[u8; 16] = b"0123456789abcdef";

/// Client writes 16 bytes + FIN and waits for the server's EOF; the server
/// starts reading `reader_delay_ms` rounds after accept and reads to EOF.
/// `faults` is installed before the client connects.
/// Returns (what the client observed, what the server had read, server saw EOF).
fn scenario(
    recv_cap: usize,
    reader_delay_ms: u64,
    faults: impl FnMut(&Packet) -> Verdict + 'static,
) -> (Result<(), String>, Vec<u8>, bool) {
    let srv_got: Rc<RefCell<(Vec<u8>, bool)>> = Rc::new(RefCell::new((Vec::new(), false)));
    let sg = srv_got.clone();
    let cfg = KernelConfig::default().recv_buf_cap(recv_cap);
    let client = ClientServer::with_config(cfg)
        .server("server", async move {
            let l = TcpListener::bind("0.0.0.0:9000").await.unwrap();
            let (mut s, _) = l.accept().await.unwrap();
            if reader_delay_ms > 0 {
                tokio::time::sleep(Duration::from_millis(reader_delay_ms)).await;
            }
            let mut buf = [0u8; 64];
            loop {
                match s.read(&mut buf).await {
                    Ok(0) => {
                        sg.borrow_mut().1 = true;
                        break;
                    }
                    Ok(n) => sg.borrow_mut().0.extend_from_slice(&buf[..n]),
                    Err(_) => break,
                }
            }
            // keep the stream (and the listener) open
            std::future::pending::<()>().await;
        })
        .run("client", async move {
            rule(faults).forget();
            let r = tokio::time::timeout(Duration::from_secs(2), async {
                let mut c = TcpStream::connect("server:9000")
                    .await
                    .map_err(|e| format!("connect: {:?}", e.kind()))?;
                c.write_all(MSG)
                    .await
                    .map_err(|e| format!("write_all: {:?}", e.kind()))?;
                c.shutdown()
                    .await
                    .map_err(|e| format!("shutdown: {:?}", e.kind()))?;
                // give the transfer ample time (2000 rounds), then look at the
                // connection's state through a read
                tokio::time::sleep(Duration::from_secs(1)).await;
                let mut b = [0u8; 1];
                match tokio::time::timeout(Duration::from_millis(500), c.read(&mut b)).await {
                    Ok(Err(e)) => Err(format!("read: {:?}", e.kind())),
                    _ => Ok(()),
                }
            })
            .await;
            match r {
                Ok(x) => x,
                Err(_) => Err("client stalled".to_string()),
            }
        });
    let g = srv_got.borrow();
    (client, g.0.clone(), g.1)
}

/// Lets the first `skip` segments that carry exactly the 8-byte tail
/// "89abcdef" through and drops the `n` following ones.
fn drop_tail(skip: u32, n: u32) -> impl FnMut(&Packet) -> Verdict {
    let mut seen = 0;
    move |p: &Packet| match &p.payload {
        Transport::Tcp(s) if &s.payload[..] == &MSG[8..] => {
            seen += 1;
            if seen > skip && seen <= skip + n {
                Verdict::Drop
            } else {
                Verdict::Pass
            }
        }
        _ => Verdict::Pass,
    }
}

/// Control: the very same five drops are survived when the window never closes.
#[test]
fn control_five_drops_large_window() {
    // recv cap 64 KiB: the writer sends "01234567" and "89abcdef" as it likes;
    // force two 8-byte segments by a 48-byte MTU instead.
    let srv_got: Rc<RefCell<Vec<u8>>> = Rc::new(RefCell::new(Vec::new()));
    let sg = srv_got.clone();
    let cfg = KernelConfig::default().mtu(48);
    let r: Result<(), String> = ClientServer::with_config(cfg)
        .server("server", async move {
            let l = TcpListener::bind("0.0.0.0:9000").await.unwrap();
            let (mut s, _) = l.accept().await.unwrap();
            let mut v = Vec::new();
            let _ = s.read_to_end(&mut v).await;
            *sg.borrow_mut() = v;
            std::future::pending::<()>().await;
        })
        .run("client", async move {
            rule(drop_tail(0, 5)).forget();
            let mut c = TcpStream::connect("server:9000").await.unwrap();
            c.write_all(MSG).await.map_err(|e| format!("{:?}", e.kind()))?;
            c.shutdown().await.map_err(|e| format!("{:?}", e.kind()))?;
            tokio::time::sleep(Duration::from_secs(1)).await;
            Ok(())
        });
    assert_eq!(r, Ok(()));
    assert_eq!(&srv_got.borrow()[..], &MSG[..]);
}

/// 5 drops (= retx_max), no delay at all, recv_buf_cap = 8.
#[test]
fn five_drops_after_closed_window_abort_the_connection() {
    let (client, got, eof) = scenario(8, 20, drop_tail(0, 5));
    assert_eq!(
        (client, &got[..], eof),
        (Ok(()), &MSG[..], true),
        "5 dropped segments (<= retx_max), no delays: every byte and EOF must arrive, no abort"
    );
}

/// Same with a reader that reads at once: the window update arrives while the
/// discarded tail still counts as in flight, so nothing is sent until the
/// rewind - which is charged as attempt 1 - and five drops abort again.
#[test]
fn five_drops_prompt_reader() {
    let (client, got, eof) = scenario(8, 0, drop_tail(0, 5));
    assert_eq!(
        (client, &got[..], eof),
        (Ok(()), &MSG[..], true),
        "5 dropped segments (<= retx_max), no delays: every byte and EOF must arrive, no abort"
    );
}

/// Only 4 drops, plus the first SYN-ACK kept in flight for 5 rounds (the
/// retransmitted SYN-ACK completes the handshake; the late original re-opens
/// `snd_wnd` to 65535 and makes the next rewind re-emit the tail into the
/// full buffer - a second attempt burnt without any packet being lost).
#[test]
fn four_drops_and_a_late_syn_ack_abort_the_connection() {
    let mut synacks = 0;
    // the first tail segment is the stale-window re-emission: it is delivered
    // (into the full receive buffer, which discards it); the next four are dropped
    let mut tail = drop_tail(1, 4);
    let (client, got, eof) = scenario(8, 20, move |p: &Packet| {
        if let Transport::Tcp(s) = &p.payload {
            if s.flags.syn && s.flags.ack {
                synacks += 1;
                if synacks == 1 {
                    return Verdict::Deliver(Duration::from_millis(5));
                }
            }
        }
        tail(p)
    });
    assert_eq!(
        (client, &got[..], eof),
        (Ok(()), &MSG[..], true),
        "4 dropped segments (< retx_max), one packet delayed 5 rounds: no abort allowed"
    );
}
