//! C16 hunt #2: the SYN-ACK advertises a fixed 65535-byte window that has
//! nothing to do with `recv_buf_cap`.
//!
//! With `recv_buf_cap = 1000` the listener's SYN-ACK still says
//! `window = 65535`. The connecting side believes it and puts its whole
//! send buffer on the wire in the first flight. The first real ACK then
//! *shrinks* the window (right edge moves left by tens of kilobytes): at
//! that instant the sender has thousands of bytes in flight against an
//! advertised window of 0, and everything past the first 1000 bytes is
//! thrown away by the receiver and has to be retransmitted.

use std::cell::RefCell;
use std::rc::Rc;
use std::time::Duration;

use tokio::io::AsyncWriteExt;
use turmoil_net::fixture::ClientServer;
use turmoil_net::shim::tokio::net::{TcpListener, TcpStream};
use turmoil_net::{rule, KernelConfig, Packet, Transport, Verdict};

const SEND_CAP: usize = 8000;

#[test]
fn control_cap_of_65535_matches_the_fixed_window() {
    first_flight(65535);
}

#[test]
fn first_flight_respects_the_receivers_buffer() {
    first_flight(1000);
}

#[allow(non_snake_case)]
fn first_flight(RECV_CAP: usize) {
    let cfg = KernelConfig::default()
        .recv_buf_cap(RECV_CAP)
        .send_buf_cap(SEND_CAP);

    let viol: Rc<RefCell<Vec<String>>> = Rc::new(RefCell::new(Vec::new()));
    let v_rule = viol.clone();

    ClientServer::with_config(cfg)
        .server("server", async move {
            let l = TcpListener::bind("0.0.0.0:9000").await.unwrap();
            let (_sock, _) = l.accept().await.unwrap();
            std::future::pending::<()>().await;
        })
        .run("client", async move {
            // Highest sequence number the client has put on the wire.
            let mut client_max_end: Option<u32> = None;
            rule(move |pkt: &Packet| {
                let Transport::Tcp(s) = &pkt.payload else {
                    return Verdict::Pass;
                };
                if s.dst_port == 9000 && !s.payload.is_empty() {
                    let end = s.seq.wrapping_add(s.payload.len() as u32);
                    match client_max_end {
                        Some(m) if (end.wrapping_sub(m) as i32) <= 0 => {}
                        _ => client_max_end = Some(end),
                    }
                }
                if s.src_port == 9000 && s.flags.ack {
                    // (a) a socket can never have more free receive space
                    // than its cap, so it must never advertise more.
                    if s.window as usize > RECV_CAP {
                        v_rule.borrow_mut().push(format!(
                            "server advertises window {} with recv_buf_cap {} (syn={})",
                            s.window, RECV_CAP, s.flags.syn
                        ));
                    }
                    // (b) this advertisement is delivered right now (no
                    // delay rule): compare with what the client has
                    // outstanding on the wire.
                    if let Some(m) = client_max_end {
                        let in_flight = m.wrapping_sub(s.ack) as i32;
                        if in_flight > s.window as i32 {
                            v_rule.borrow_mut().push(format!(
                                "client has {} bytes in flight; peer's last advertised window is {} \
                                 (ack={})",
                                in_flight, s.window, s.ack
                            ));
                        }
                    }
                }
                Verdict::Pass
            })
            .forget();

            let mut c = TcpStream::connect("server:9000").await.unwrap();
            c.write_all(&[9u8; SEND_CAP]).await.unwrap();
            tokio::time::sleep(Duration::from_millis(10)).await;
            let v = viol.borrow();
            assert!(v.is_empty(), "{}", v.join("\n"));
        });
}
