//! H3: a connector whose ephemeral port was used by an earlier, already closed
//! connection to the same listener, while the listener side has not (yet)
//! dropped its end of the old stream.
use std::time::Duration;
use tokio::io::AsyncReadExt;
use turmoil::{
    net::{TcpListener, TcpStream},
    Builder, Result,
};

const PORT: u16 = 1738;

/// Default configuration: 16384 ephemeral ports, so the 16385th connect of a
/// client wraps around to the port of its first connection.
#[test]
fn port_wraps_while_server_still_holds_old_stream() -> Result {
    let mut sim = Builder::new()
        .simulation_duration(Duration::from_secs(600))
        .min_message_latency(Duration::from_millis(1))
        .max_message_latency(Duration::from_millis(1))
        .build();

    sim.host("server", || async {
        let listener = TcpListener::bind(("0.0.0.0", PORT)).await?;
        let mut first = None;
        loop {
            let (mut s, _) = listener.accept().await?;
            if first.is_none() {
                // a slow handler: keeps its end of the first connection open
                first = Some(s);
            } else {
                tokio::spawn(async move {
                    let mut buf = [0u8; 8];
                    while let Ok(n) = s.read(&mut buf).await {
                        if n == 0 {
                            break;
                        }
                    }
                });
            }
        }
    });

    sim.client("client", async {
        let n = 65535 - 49152 + 1;
        for i in 0..=n {
            let s = TcpStream::connect(("server", PORT)).await?;
            if i == 0 {
                assert_eq!(s.local_addr()?.port(), 49152);
            }
            if i == n {
                assert_eq!(s.local_addr()?.port(), 49152);
            }
            drop(s);
        }
        Ok(())
    });

    sim.run()
}
