//! C13 hunt #3: connect() reports ConnectionRefused for a connection
//! that WAS established and that accept() handed to the server.
//!
//! The client starts a connect, is busy with something else for a few
//! ticks (the connect future is simply not polled in between -- legal
//! for any future), and then awaits it. Meanwhile the handshake
//! completed, the server accepted the connection, wrote a greeting and
//! closed. The client TCB is in CLOSE_WAIT by the time the connect
//! future is polled again, and `poll_connect` maps every state other
//! than Established/SynSent/SynReceived to ConnectionRefused.

use std::future::{poll_fn, Future};
use std::io::ErrorKind;
use std::task::Poll;
use std::time::Duration;

use tokio::io::{AsyncReadExt, AsyncWriteExt};
use turmoil_net::fixture::ClientServer;
use turmoil_net::shim::tokio::net::{TcpListener, TcpStream};

#[test]
fn connect_polled_late_reports_refused_for_an_accepted_connection() {
    let (tx, rx) = tokio::sync::oneshot::channel::<std::net::SocketAddr>();
    ClientServer::new()
        .server("server", async move {
            let l = TcpListener::bind("0.0.0.0:9000").await.unwrap();
            let (mut s, peer) = l.accept().await.unwrap();
            // accept() handed out the established connection.
            tx.send(peer).unwrap();
            s.write_all(b"hello").await.unwrap();
            s.shutdown().await.unwrap();
            // Wait for the client's side to finish, then drop.
            let mut buf = [0u8; 8];
            let _ = s.read(&mut buf).await;
            std::future::pending::<()>().await;
        })
        .run("client", async move {
            let mut fut: std::pin::Pin<Box<dyn Future<Output = _>>> =
                Box::pin(TcpStream::connect("server:9000"));
            // First poll: SYN goes out.
            poll_fn(|cx| {
                assert!(fut.as_mut().poll(cx).is_pending());
                Poll::Ready(())
            })
            .await;

            // Busy elsewhere for a few ticks.
            tokio::time::sleep(Duration::from_millis(10)).await;

            // The server did accept this very connection.
            let accepted_peer = rx.await.expect("server accepted the connection");

            let res: std::io::Result<TcpStream> = fut.await;
            match res {
                Ok(mut c) => {
                    assert_eq!(c.local_addr().unwrap(), accepted_peer);
                    let mut got = Vec::new();
                    c.read_to_end(&mut got).await.unwrap();
                    assert_eq!(got, b"hello");
                }
                Err(e) => {
                    assert_eq!(e.kind(), ErrorKind::ConnectionRefused);
                    panic!(
                        "connect() failed with {e:?} although the listener was reachable, had backlog room and accept() returned this connection (peer {accepted_peer})"
                    );
                }
            }
        });
}
