//! C12: a connect whose ephemeral port wrapped around to the address pair of
//! an earlier (already closed) connection is killed by the old connection's
//! RST while it is still half-open. The listener then acknowledges the
//! request (connect returns Ok) and panics "missing stream socket" instead of
//! handing out the accepted stream.
//!
//! Default configuration (ephemeral ports 49152..=65535, tcp_capacity 64); at
//! most one request is pending at the listener at any time.

use std::{cell::RefCell, io::ErrorKind, net::SocketAddr, rc::Rc, time::Duration};

use tokio::{io::AsyncWriteExt, time::sleep};
use turmoil::{
    net::{TcpListener, TcpStream},
    Builder,
};

#[derive(Default)]
struct Log {
    /// (local, peer) of every stream handed out by accept
    accepted: Vec<(SocketAddr, SocketAddr)>,
    /// outcome of the second connect: Ok((local, peer)) or the error kind
    second: Option<Result<(SocketAddr, SocketAddr), ErrorKind>>,
}

#[test]
fn old_rst_must_not_break_the_pairing_of_a_new_connect() {
    let mut sim = Builder::new()
        .rng_seed(7)
        .min_message_latency(Duration::from_millis(5))
        .max_message_latency(Duration::from_millis(5))
        .build();

    let log = Rc::new(RefCell::new(Log::default()));

    let slog = log.clone();
    sim.host("server", move || {
        let log = slog.clone();
        async move {
            let listener = TcpListener::bind(("0.0.0.0", 80)).await?;

            // first connection: accepted, never read
            let (first, _) = listener.accept().await?;
            log.borrow_mut()
                .accepted
                .push((first.local_addr()?, first.peer_addr()?));

            // A slow handler: by now the client's byte and FIN have arrived
            // and the client's second request is queued at the listener.
            sleep(Duration::from_millis(20)).await;
            // Closing with unread data resets the (old) connection.
            drop(first);
            // The RST needs 5 ms to reach the client.
            sleep(Duration::from_millis(10)).await;

            // second connection
            let (second, peer) = listener.accept().await?;
            assert_eq!(peer, second.peer_addr()?);
            log.borrow_mut()
                .accepted
                .push((second.local_addr()?, second.peer_addr()?));

            // keep it open until the client is done
            sleep(Duration::from_secs(5)).await;
            drop(second);
            Ok(())
        }
    });

    let clog = log.clone();
    sim.client("client", async move {
        // A short-lived connection: connect, write, close.
        let mut first = TcpStream::connect(("server", 80)).await?;
        let first_local = first.local_addr()?;
        first.write_all(b"x").await?;
        drop(first);
        assert_eq!(turmoil::established_tcp_stream_count(), 0);

        // Refused connects to an address no host owns: each one takes the
        // next ephemeral port and fails at once with ConnectionRefused. After
        // 16383 of them the port counter is back at the first port.
        for _ in 0..16383 {
            let e = TcpStream::connect("192.168.250.250:9").await.unwrap_err();
            assert_eq!(e.kind(), ErrorKind::ConnectionRefused);
        }

        // The second connect to the same listener gets the same address
        // pair as the first one.
        let second = TcpStream::connect(("server", 80)).await;
        let outcome = match &second {
            Ok(s) => Ok((s.local_addr()?, s.peer_addr()?)),
            Err(e) => Err(e.kind()),
        };
        if let Ok((l, _)) = &outcome {
            assert_eq!(*l, first_local, "test premise: the port wrapped around");
        }
        clog.borrow_mut().second = Some(outcome);

        sleep(Duration::from_millis(100)).await;
        drop(second);
        Ok(())
    });

    let res = sim.run();

    let log = log.borrow();
    let second = log.second.clone().expect("second connect never resolved");
    match second {
        Ok((local, peer)) => {
            // A successful connect is matched by exactly one accepted stream
            // with mirrored addresses.
            let n = log
                .accepted
                .iter()
                .skip(1)
                .filter(|(al, ap)| *al == peer && *ap == local)
                .count();
            assert_eq!(
                n, 1,
                "connect returned Ok({local} -> {peer}) but accept handed out {n} matching streams; sim result: {res:?}"
            );
        }
        Err(kind) => assert_eq!(kind, ErrorKind::ConnectionRefused),
    }
    assert!(res.is_ok(), "simulation aborted: {res:?}");
}

/// Same defect, second shape: no old segment is in flight. The client still
/// owns the `TcpStream` of a connection that the server has reset long ago
/// (its socket is gone, only the handle is left). Dropping that stale handle
/// while a new connect with the same (wrapped) address pair is half-open
/// closes the *new* socket: a FIN is sent on the new connection and the
/// half-open socket is removed. The listener then acknowledges the request
/// and panics "missing stream socket".
#[test]
fn dropping_a_stale_handle_must_not_break_the_pairing_of_a_new_connect() {
    let mut sim = Builder::new()
        .rng_seed(7)
        .min_message_latency(Duration::from_millis(5))
        .max_message_latency(Duration::from_millis(5))
        .build();

    let log = Rc::new(RefCell::new(Log::default()));

    let slog = log.clone();
    sim.host("server", move || {
        let log = slog.clone();
        async move {
            let listener = TcpListener::bind(("0.0.0.0", 80)).await?;

            // first connection: accepted and closed at once
            let (first, _) = listener.accept().await?;
            log.borrow_mut()
                .accepted
                .push((first.local_addr()?, first.peer_addr()?));
            drop(first);

            // a slow accept loop
            sleep(Duration::from_millis(60)).await;

            let (second, peer) = listener.accept().await?;
            assert_eq!(peer, second.peer_addr()?);
            log.borrow_mut()
                .accepted
                .push((second.local_addr()?, second.peer_addr()?));

            sleep(Duration::from_secs(5)).await;
            drop(second);
            Ok(())
        }
    });

    let clog = log.clone();
    sim.client("client", async move {
        let mut first = TcpStream::connect(("server", 80)).await?;
        let first_local = first.local_addr()?;
        sleep(Duration::from_millis(10)).await;
        // The server has closed: this write is answered with a RST, which
        // removes the client's socket. The handle stays around (think of a
        // connection pool that has not noticed yet).
        first.write_all(b"x").await?;
        sleep(Duration::from_millis(15)).await;
        assert_eq!(turmoil::established_tcp_stream_count(), 0);

        for _ in 0..16383 {
            let e = TcpStream::connect("192.168.250.250:9").await.unwrap_err();
            assert_eq!(e.kind(), ErrorKind::ConnectionRefused);
        }

        let pending = tokio::task::spawn_local(TcpStream::connect(("server", 80)));
        sleep(Duration::from_millis(2)).await;
        // the pool finally discards the dead connection
        drop(first);

        let second = pending.await?;
        let outcome = match &second {
            Ok(s) => Ok((s.local_addr()?, s.peer_addr()?)),
            Err(e) => Err(e.kind()),
        };
        if let Ok((l, _)) = &outcome {
            assert_eq!(*l, first_local, "test premise: the port wrapped around");
        }
        clog.borrow_mut().second = Some(outcome);

        sleep(Duration::from_millis(100)).await;
        drop(second);
        Ok(())
    });

    let res = sim.run();

    let log = log.borrow();
    let second = log.second.clone().expect("second connect never resolved");
    match second {
        Ok((local, peer)) => {
            let n = log
                .accepted
                .iter()
                .skip(1)
                .filter(|(al, ap)| *al == peer && *ap == local)
                .count();
            assert_eq!(
                n, 1,
                "connect returned Ok({local} -> {peer}) but accept handed out {n} matching streams; sim result: {res:?}"
            );
        }
        Err(kind) => assert_eq!(kind, ErrorKind::ConnectionRefused),
    }
    assert!(res.is_ok(), "simulation aborted: {res:?}");
}
