//! C07 hunt, finding 2.
//!
//! `remove_file(/d1/f)` followed by `rename(/d2/g, /d1/f)`. `sync_dir(/d2)`
//! flushes the rename as a whole (entry `/d1/f` durable, inode moved) but
//! leaves the OLDER `RemoveFile{/d1/f}` in the pending log. That stale op now
//! refers to the renamed-in file: the file vanishes from the live view at once
//! and `sync_dir(/d1)` makes its removal durable. Both directories synced, the
//! file is gone under every name.
#![cfg(feature = "unstable-fs")]

use std::os::unix::fs::FileExt;
use std::sync::{Arc, Mutex};
use std::time::Duration;
use turmoil::fs::shim::std::fs::{create_dir, read, remove_file, rename, sync_dir, OpenOptions};
use turmoil::fs::{enter, EnterCtx, Fs, FsConfig};

fn ctx() -> EnterCtx<'static> {
    EnterCtx {
        now: Duration::from_secs(1),
        on_corruption: None,
    }
}

fn durable(path: &str, data: &[u8]) {
    let f = OpenOptions::new()
        .write(true)
        .create_new(true)
        .open(path)
        .unwrap();
    f.write_all_at(data, 0).unwrap();
    f.sync_all().unwrap();
    sync_dir(std::path::Path::new(path).parent().unwrap()).unwrap();
}

fn text(p: &str) -> Option<String> {
    read(p).ok().map(|v| String::from_utf8_lossy(&v).into_owned())
}

#[test]
fn rename_onto_unlinked_name_in_other_dir_source_dir_synced_first() {
    let fs = Arc::new(Mutex::new(Fs::new(FsConfig::default(), 1)));
    let _g = enter(&fs, ctx());
    create_dir("/d1").unwrap();
    create_dir("/d2").unwrap();
    sync_dir("/").unwrap();
    durable("/d1/f", b"FFFF");
    durable("/d2/g", b"GG");

    remove_file("/d1/f").unwrap();
    rename("/d2/g", "/d1/f").unwrap();
    assert_eq!(text("/d1/f").as_deref(), Some("GG"));

    sync_dir("/d2").unwrap();
    sync_dir("/d1").unwrap();

    fs.lock().unwrap().crash();
    assert_eq!(text("/d2/g"), None, "rename source must be gone");
    assert_eq!(
        text("/d1/f").as_deref(),
        Some("GG"),
        "file renamed to /d1/f, both directories synced: lost"
    );
}
