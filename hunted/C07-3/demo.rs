//! C07 hunt, finding 3.
//!
//! Pending `Write`/`SetLen` ops are keyed by the path they were issued
//! through. When `sync_dir` flushes a `Rename{from, to}` the persisted inode
//! moves to `to`, but the still-pending data ops keep saying `from`. From then
//! on nothing connects them to the file: the live view loses the data and a
//! later `sync_all` on the file cannot make it durable.
#![cfg(feature = "unstable-fs")]

use std::os::unix::fs::FileExt;
use std::sync::{Arc, Mutex};
use std::time::Duration;
use turmoil::fs::shim::std::fs::{read, rename, sync_dir, File, OpenOptions};
use turmoil::fs::{enter, EnterCtx, Fs, FsConfig};

fn ctx() -> EnterCtx<'static> {
    EnterCtx {
        now: Duration::from_secs(1),
        on_corruption: None,
    }
}

fn text(p: &str) -> Option<String> {
    read(p).ok().map(|v| String::from_utf8_lossy(&v).into_owned())
}

/// write tmp, rename tmp -> final, sync_dir, fsync(final), crash
#[test]
fn write_rename_sync_dir_sync_all_crash() {
    let fs = Arc::new(Mutex::new(Fs::new(FsConfig::default(), 1)));
    let _g = enter(&fs, ctx());

    let f = File::create("/tmp").unwrap();
    f.write_all_at(b"DATA", 0).unwrap();
    drop(f);
    rename("/tmp", "/final").unwrap();
    assert_eq!(text("/final").as_deref(), Some("DATA"));

    sync_dir("/").unwrap(); // entry /final durable
    let f = OpenOptions::new().write(true).open("/final").unwrap();
    f.sync_all().unwrap(); // ... and now its data
    drop(f);

    fs.lock().unwrap().crash();
    assert_eq!(
        text("/final").as_deref(),
        Some("DATA"),
        "content at the last sync_all of /final"
    );
}

/// durable file, in-place write, rename, sync_dir, fsync(new name), crash
#[test]
fn durable_write_rename_sync_dir_sync_all_crash() {
    let fs = Arc::new(Mutex::new(Fs::new(FsConfig::default(), 1)));
    let _g = enter(&fs, ctx());

    let f = File::create("/a").unwrap();
    f.write_all_at(b"AAAA", 0).unwrap();
    f.sync_all().unwrap();
    sync_dir("/").unwrap();
    f.write_all_at(b"BB", 0).unwrap(); // pending
    drop(f);

    rename("/a", "/b").unwrap();
    assert_eq!(text("/b").as_deref(), Some("BBAA"));
    sync_dir("/").unwrap();
    let f = OpenOptions::new().write(true).open("/b").unwrap();
    f.sync_all().unwrap();
    drop(f);

    fs.lock().unwrap().crash();
    assert_eq!(text("/a"), None);
    assert_eq!(
        text("/b").as_deref(),
        Some("BBAA"),
        "content at the last sync_all of /b"
    );
}
