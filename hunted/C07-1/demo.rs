//! C07 hunt, finding 1.
//!
//! A name is vacated by an unsynced `remove_file` (or `rename` away) and a new
//! file is created under the same name. `sync_all` on the new file applies its
//! data to `persisted_files[name]`, which is still the inode of the *previous*
//! holder of the name (the op that vacates it is only pending). A following
//! `sync_dir(parent)` then flushes RemoveFile/Rename + CreateFile: the
//! previous inode (now carrying the new file's synced bytes) is dropped or
//! moved away and the new file is re-created empty.
#![cfg(feature = "unstable-fs")]

use std::os::unix::fs::FileExt;
use std::sync::atomic::{AtomicUsize, Ordering};
use std::sync::{Arc, Mutex};
use std::time::Duration;
use turmoil::fs::shim::std::fs::{read, remove_file, rename, sync_dir, File, OpenOptions};
use turmoil::fs::{enter, EnterCtx, Fs, FsConfig};

fn ctx() -> EnterCtx<'static> {
    EnterCtx {
        now: Duration::from_secs(1),
        on_corruption: None,
    }
}

/// create + write + sync_all + sync_dir("/"): fully durable file
fn durable(path: &str, data: &[u8]) {
    let f = OpenOptions::new()
        .write(true)
        .create_new(true)
        .open(path)
        .unwrap();
    f.write_all_at(data, 0).unwrap();
    f.sync_all().unwrap();
    sync_dir("/").unwrap();
}

fn text(p: &str) -> Option<String> {
    read(p).ok().map(|v| String::from_utf8_lossy(&v).into_owned())
}

/// Everything about the new file is synced (data, then parent directory),
/// yet it is empty after the crash.
#[test]
fn unlink_create_write_sync_all_sync_dir_crash() {
    let fs = Arc::new(Mutex::new(Fs::new(FsConfig::default(), 1)));
    let _g = enter(&fs, ctx());
    durable("/f", b"OLDOLDOLD");

    remove_file("/f").unwrap();
    let f = File::create("/f").unwrap();
    f.write_all_at(b"NEW", 0).unwrap();
    f.sync_all().unwrap(); // data of the new file durable
    sync_dir("/").unwrap(); // removal of the old + entry of the new durable
    drop(f);

    fs.lock().unwrap().crash();
    assert_eq!(
        text("/f").as_deref(),
        Some("NEW"),
        "synced data of the re-created file lost"
    );
}

/// Only the data sync happened: removal and creation must be rolled back and
/// the old file must come back with exactly its last synced content.
#[test]
fn unlink_create_write_sync_all_crash_alters_old_file() {
    let fs = Arc::new(Mutex::new(Fs::new(FsConfig::default(), 1)));
    let _g = enter(&fs, ctx());
    durable("/f", b"OLDOLDOLD");

    remove_file("/f").unwrap();
    let f = OpenOptions::new()
        .write(true)
        .create_new(true)
        .open("/f")
        .unwrap();
    f.write_all_at(b"NEW", 0).unwrap();
    f.sync_all().unwrap();
    drop(f);

    fs.lock().unwrap().crash();
    assert_eq!(
        text("/f").as_deref(),
        Some("OLDOLDOLD"),
        "durable content of the old file altered by a write to another file"
    );
}

/// Same defect with a torn-write block size and no sync at all: the pending
/// write to the NEW (non-durable) file is torn into the OLD durable inode.
#[test]
fn unlink_create_write_crash_with_block_size() {
    let mut cfg = FsConfig::default();
    cfg.block_size(1);
    let mut bad = Vec::new();
    for seed in 0..20 {
        let fs = Arc::new(Mutex::new(Fs::new(cfg.clone(), seed)));
        let _g = enter(&fs, ctx());
        durable("/f", b"OLDOLD");
        remove_file("/f").unwrap();
        let f = OpenOptions::new()
            .write(true)
            .create_new(true)
            .open("/f")
            .unwrap();
        f.write_all_at(b"new", 0).unwrap();
        drop(f);
        fs.lock().unwrap().crash();
        // nothing was ever written to the old file after its last sync
        let v = text("/f").unwrap();
        if v != "OLDOLD" {
            bad.push((seed, v));
        }
    }
    assert!(bad.is_empty(), "bytes never written to /f appear: {bad:?}");
}

/// Log rotation inside a running simulation, Sim::crash + Sim::bounce:
/// rename the durable log away, create a new one, write, sync_all, sync_dir.
#[test]
fn log_rotation_through_sim_crash() {
    let mut sim = turmoil::Builder::new().build();
    let phase = Arc::new(AtomicUsize::new(0));
    let seen: Arc<Mutex<Vec<(String, Option<String>)>>> = Default::default();

    let (p, s) = (phase.clone(), seen.clone());
    sim.host("a", move || {
        let (p, s) = (p.clone(), s.clone());
        async move {
            if p.load(Ordering::SeqCst) == 0 {
                let f = File::create("/log").unwrap();
                f.write_all_at(b"aaaaaa", 0).unwrap();
                f.sync_all().unwrap();
                sync_dir("/").unwrap();
                drop(f);
                // rotate
                rename("/log", "/log.1").unwrap();
                let f = File::create("/log").unwrap();
                f.write_all_at(b"new", 0).unwrap();
                f.sync_all().unwrap();
                sync_dir("/").unwrap();
            } else {
                let mut s = s.lock().unwrap();
                s.push(("/log".into(), text("/log")));
                s.push(("/log.1".into(), text("/log.1")));
            }
            Ok(())
        }
    });
    for _ in 0..5 {
        sim.step().unwrap();
    }
    sim.crash("a");
    phase.store(1, Ordering::SeqCst);
    sim.bounce("a");
    for _ in 0..5 {
        sim.step().unwrap();
    }
    let s = seen.lock().unwrap();
    assert_eq!(
        *s,
        vec![
            ("/log".to_string(), Some("new".to_string())),
            ("/log.1".to_string(), Some("aaaaaa".to_string())),
        ]
    );
}
