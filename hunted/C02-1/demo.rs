//! C02 hunt 1: the peer's graceful FIN is answered with a RST when the local
//! side has dropped only its `OwnedReadHalf` (write half still alive and
//! writing). The RST tears the peer's socket down and the peer never reads
//! the bytes the local writer had accepted, nor EOF.

use std::time::Duration;

use tokio::io::{AsyncReadExt, AsyncWriteExt};
use turmoil::net::{TcpListener, TcpStream};
use turmoil::Builder;

const N: usize = 20;

#[test]
fn fin_to_socket_with_dropped_read_half_resets_peer() -> turmoil::Result {
    let mut sim = Builder::new()
        .min_message_latency(Duration::from_millis(1))
        .max_message_latency(Duration::from_millis(1))
        .build();

    // The receiver: a pure sink. It shuts its own write direction down right
    // away (graceful FIN, it has nothing to say) and reads to end-of-file.
    sim.host("server", || async {
        let listener = TcpListener::bind("0.0.0.0:9000").await?;
        loop {
            let (mut stream, _) = listener.accept().await?;
            stream.shutdown().await?;

            let mut got = Vec::new();
            let res = stream.read_to_end(&mut got).await;

            let expected: Vec<u8> = (0..N).flat_map(|i| vec![i as u8; 8]).collect();
            assert!(
                res.is_ok(),
                "reader got {res:?} after {} of {} bytes",
                got.len(),
                expected.len()
            );
            assert_eq!(got, expected);
        }
    });

    // The sender: write-only. It drops the read half at once (nothing is
    // unread: nothing was ever sent to it) and writes N chunks, then shuts
    // down gracefully.
    sim.client("client", async {
        let stream = TcpStream::connect("server:9000").await?;
        let (r, mut w) = stream.into_split();
        drop(r);

        for i in 0..N {
            // Every one of these is an accepted write unless it errors.
            if let Err(e) = w.write_all(&[i as u8; 8]).await {
                panic!("write {i} failed: {e}");
            }
            tokio::time::sleep(Duration::from_millis(3)).await;
        }
        w.shutdown().await?;
        tokio::time::sleep(Duration::from_millis(50)).await;
        Ok(())
    });

    sim.run()
}
