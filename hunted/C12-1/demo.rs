//! C12 finding 1: a connect to a host whose software has returned hangs forever
//! instead of failing with ConnectionRefused.
//!
//! `Sim::step` only moves messages off the links for hosts whose software is
//! still running, so a SYN addressed to a finished host is never looked at and
//! its oneshot is never dropped.
use std::{io, time::Duration};
use tokio::time::{sleep, timeout};
use turmoil::{
    net::{TcpListener, TcpStream},
    Builder, Result,
};

const PORT: u16 = 1738;

fn builder() -> Builder {
    let mut b = Builder::new();
    b.simulation_duration(Duration::from_secs(60))
        .min_message_latency(Duration::from_millis(10))
        .max_message_latency(Duration::from_millis(10));
    b
}

/// Control: the listener is dropped but the software keeps running. Passes.
#[test]
fn control_listener_dropped_host_still_running() -> Result {
    let mut sim = builder().build();
    sim.host("server", || async {
        let listener = TcpListener::bind(("0.0.0.0", PORT)).await?;
        let (_s, _) = listener.accept().await?;
        drop(listener);
        sleep(Duration::from_secs(1000)).await;
        Ok(())
    });
    sim.client("client", async {
        drop(TcpStream::connect(("server", PORT)).await?);
        sleep(Duration::from_secs(1)).await;
        let second = timeout(Duration::from_secs(10), TcpStream::connect(("server", PORT)))
            .await
            .expect("connect hung");
        assert_eq!(
            second.err().map(|e| e.kind()),
            Some(io::ErrorKind::ConnectionRefused)
        );
        Ok(())
    });
    sim.run()
}

/// The server accepts one connection and returns; its listener is dropped
/// inside the simulation, nobody listens on PORT afterwards. FAILS: the second
/// connect hangs.
#[test]
fn connect_to_port_nobody_listens_on_after_software_returned() -> Result {
    let mut sim = builder().build();
    sim.host("server", || async {
        let listener = TcpListener::bind(("0.0.0.0", PORT)).await?;
        let (_s, _) = listener.accept().await?;
        Ok(())
    });
    sim.client("client", async {
        drop(TcpStream::connect(("server", PORT)).await?);
        sleep(Duration::from_secs(1)).await;
        let second = timeout(Duration::from_secs(10), TcpStream::connect(("server", PORT)))
            .await
            .expect("connect to a port nobody listens on hung for 10 s");
        assert_eq!(
            second.err().map(|e| e.kind()),
            Some(io::ErrorKind::ConnectionRefused)
        );
        Ok(())
    });
    sim.run()
}

/// The listener is dropped before accepting (the software returns) while the
/// request is still on the link. FAILS: the connect hangs.
#[test]
fn listener_dropped_before_accepting_by_returning() -> Result {
    let mut sim = builder().build();
    sim.host("server", || async {
        let _listener = TcpListener::bind(("0.0.0.0", PORT)).await?;
        sleep(Duration::from_millis(20)).await;
        Ok(())
    });
    sim.client("client", async {
        sleep(Duration::from_millis(15)).await; // SYN arrives at 25 ms
        let r = timeout(Duration::from_secs(10), TcpStream::connect(("server", PORT)))
            .await
            .expect("connect to a listener dropped before accepting hung for 10 s");
        assert_eq!(
            r.err().map(|e| e.kind()),
            Some(io::ErrorKind::ConnectionRefused)
        );
        Ok(())
    });
    sim.run()
}
