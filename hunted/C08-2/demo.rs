//! C08 hunt #2: a message that was sent but not yet delivered is neither
//! visible through `Sim::links` nor stopped by `Sim::hold`.
//!
//! Host "b" is registered before "a", so inside one `step()` "b" runs before
//! "a". When "a" sends a datagram whose sampled latency is 0 (the default
//! minimum latency is 0 ms, here pinned for determinism), the link moves it
//! to its private `deliverable` queue at once. "b" already ran in this step,
//! so after the step the datagram is still in flight: "b" has not received
//! it. The links iterator does not show it, and a `hold` placed now does not
//! stop it: it is delivered on the next step while the hold lasts.

use std::cell::Cell;
use std::net::{IpAddr, Ipv4Addr};
use std::rc::Rc;
use std::time::Duration;

use turmoil::net::UdpSocket;
use turmoil::Builder;

fn in_flight(sim: &turmoil::Sim<'_>) -> usize {
    let mut n = 0;
    sim.links(|links| {
        for link in links {
            n += link.count();
        }
    });
    n
}

#[test]
fn hold_between_steps_misses_message_in_deliverable_queue() -> turmoil::Result {
    let mut sim = Builder::new()
        .min_message_latency(Duration::ZERO)
        .max_message_latency(Duration::ZERO)
        .build();

    let received = Rc::new(Cell::new(0usize));
    let received_b = received.clone();
    let sent = Rc::new(Cell::new(false));
    let sent_a = sent.clone();

    // "b" first: it is ticked before "a" in every step.
    sim.client("b", async move {
        let sock = UdpSocket::bind((IpAddr::V4(Ipv4Addr::UNSPECIFIED), 9000)).await?;
        let mut buf = [0u8; 16];
        loop {
            let (n, _) = sock.recv_from(&mut buf).await?;
            assert_eq!(&buf[..n], b"m1");
            received_b.set(received_b.get() + 1);
        }
    });

    sim.client("a", async move {
        let sock = UdpSocket::bind((IpAddr::V4(Ipv4Addr::UNSPECIFIED), 9000)).await?;
        // give "b" time to bind
        tokio::time::sleep(Duration::from_millis(5)).await;
        sock.send_to(b"m1", ("b", 9000)).await?;
        sent_a.set(true);
        tokio::time::sleep(Duration::from_secs(3600)).await;
        Ok(())
    });

    // Step until the step in which "a" sent its datagram.
    while !sent.get() {
        sim.step()?;
    }
    // "b" ran before "a" in that step, so it cannot have the datagram yet.
    assert_eq!(received.get(), 0);

    // The datagram is in flight on link a<->b: sent, not delivered.
    let shown = in_flight(&sim);

    // Hold the link from the Sim handle, between steps.
    sim.hold("a", "b");
    for _ in 0..20 {
        sim.step()?;
    }
    let delivered_during_hold = received.get();

    assert!(
        shown == 1 && delivered_during_hold == 0,
        "in-flight datagram: links iterator showed {shown} message(s) (expected 1); \
         {delivered_during_hold} datagram(s) delivered while the link was held (expected 0)"
    );

    sim.release("a", "b");
    for _ in 0..5 {
        sim.step()?;
    }
    assert_eq!(received.get(), 1);
    Ok(())
}

/// Same defect with the *default* link configuration (latency 0..100 ms,
/// exponential): roughly 5% of the messages sample a latency of 0 ms and
/// skip the `sent` queue. Here the hold is placed from inside host code
/// immediately after the sends, before the sender yields.
#[test]
fn default_latency_hold_from_host_code_leaks_zero_delay_messages() -> turmoil::Result {
    const N: usize = 40;
    let mut sim = Builder::new().rng_seed(7).build();

    let received = Rc::new(Cell::new(0usize));
    let received_b = received.clone();
    let held = Rc::new(Cell::new(false));
    let held_a = held.clone();

    sim.client("b", async move {
        let sock = UdpSocket::bind((IpAddr::V4(Ipv4Addr::UNSPECIFIED), 9000)).await?;
        let mut buf = [0u8; 16];
        loop {
            sock.recv_from(&mut buf).await?;
            received_b.set(received_b.get() + 1);
        }
    });

    sim.client("a", async move {
        let sock = UdpSocket::bind((IpAddr::V4(Ipv4Addr::UNSPECIFIED), 9000)).await?;
        tokio::time::sleep(Duration::from_millis(5)).await;
        for i in 0..N {
            sock.send_to(&[i as u8], ("b", 9000)).await?;
        }
        turmoil::hold("a", "b");
        held_a.set(true);
        tokio::time::sleep(Duration::from_secs(3600)).await;
        Ok(())
    });

    while !held.get() {
        sim.step()?;
    }
    assert_eq!(received.get(), 0, "b ran before a in the sending step");
    let shown = in_flight(&sim);

    // 500 ms of simulated time, far beyond the 100 ms maximum latency.
    for _ in 0..500 {
        sim.step()?;
    }

    assert!(
        shown == N && received.get() == 0,
        "{N} datagrams sent and none received when hold() was called: links iterator \
         showed {shown}; {} delivered while the link was held",
        received.get()
    );
    Ok(())
}

/// Variant that needs no zero latency: fixed 3 ms latency. At the start of a
/// step the topology moves the due datagram into the `deliverable` queue;
/// "a" (ticked before "b") then calls `hold("a", "b")` from host code while
/// "b" has still not received anything; "b" is handed the datagram later in
/// the same step, after the hold took effect.
#[test]
fn hold_from_host_code_misses_message_already_marked_deliverable() -> turmoil::Result {
    let lat = Duration::from_millis(3);
    let mut sim = Builder::new()
        .min_message_latency(lat)
        .max_message_latency(lat)
        .build();

    let received = Rc::new(Cell::new(0usize));
    let received_b = received.clone();
    let received_a = received.clone();
    let held = Rc::new(Cell::new(false));
    let held_a = held.clone();
    let shown_at_hold = Rc::new(Cell::new(usize::MAX));

    // "a" first this time: it is ticked before "b".
    sim.client("a", async move {
        let sock = UdpSocket::bind((IpAddr::V4(Ipv4Addr::UNSPECIFIED), 9000)).await?;
        tokio::time::sleep(Duration::from_millis(5)).await;
        sock.send_to(b"m1", ("b", 9000)).await?;
        tokio::time::sleep(lat).await;
        // Nothing was delivered yet when the hold is placed.
        assert_eq!(received_a.get(), 0);
        turmoil::hold("a", "b");
        held_a.set(true);
        tokio::time::sleep(Duration::from_secs(3600)).await;
        Ok(())
    });

    sim.client("b", async move {
        let sock = UdpSocket::bind((IpAddr::V4(Ipv4Addr::UNSPECIFIED), 9000)).await?;
        let mut buf = [0u8; 16];
        loop {
            sock.recv_from(&mut buf).await?;
            received_b.set(received_b.get() + 1);
        }
    });

    while !held.get() {
        sim.step()?;
    }
    shown_at_hold.set(in_flight(&sim));
    for _ in 0..20 {
        sim.step()?;
    }

    assert!(
        received.get() == 0,
        "datagram was undelivered when a called hold(), yet b received {} datagram(s) \
         while the link was held (links iterator showed {} after the holding step)",
        received.get(),
        shown_at_hold.get()
    );
    Ok(())
}
