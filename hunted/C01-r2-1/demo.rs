//! C01 hunt, candidate 1.
//!
//! A host program keeps a lease with a deadline on the (simulated) tokio
//! clock and, when the lease is dropped, records how much of it was left.
//! Everything in the program is deterministic under simulated time.
//!
//! `Sim::crash` / `Sim::bounce` drop the host's tasks *outside* the host's
//! tokio runtime (`Rt::cancel_tasks` first drops the `Runtime`, then the
//! `LocalSet` that owns the software and every `spawn_local` task). In that
//! window `tokio::time::Instant::now()` is not the paused clock of the host
//! but the wall clock of the machine, so what the destructor observes differs
//! from run to run with the same seed.

use std::cell::RefCell;
use std::rc::Rc;
use std::time::{Duration, SystemTime};

use tokio::time::Instant;
use turmoil::Builder;

type Log = Rc<RefCell<Vec<String>>>;

/// A lease valid for one hour of host time.
struct Lease {
    name: &'static str,
    deadline: Instant,
    log: Log,
}

impl Lease {
    fn new(name: &'static str, log: Log) -> Self {
        Self {
            name,
            deadline: Instant::now() + Duration::from_secs(3600),
            log,
        }
    }

    fn remaining(&self) -> Duration {
        self.deadline.saturating_duration_since(Instant::now())
    }
}

impl Drop for Lease {
    fn drop(&mut self) {
        self.log.borrow_mut().push(format!(
            "lease {} dropped with {:?} remaining",
            self.name,
            self.remaining()
        ));
    }
}

#[derive(Clone, Copy)]
enum Fault {
    Crash,
    Bounce,
}

fn scenario(fault: Fault) -> Vec<String> {
    let log: Log = Rc::new(RefCell::new(Vec::new()));

    let mut sim = Builder::new()
        .rng_seed(7)
        .epoch(SystemTime::UNIX_EPOCH + Duration::from_secs(1_700_000_000))
        .tick_duration(Duration::from_millis(1))
        .build();

    let host_log = log.clone();
    sim.host("server", move || {
        let log = host_log.clone();
        async move {
            let lease = Lease::new("main", log.clone());
            let task_log = log.clone();
            tokio::task::spawn_local(async move {
                let _lease = Lease::new("worker", task_log);
                std::future::pending::<()>().await;
            });
            loop {
                tokio::time::sleep(Duration::from_millis(2)).await;
                // Inside the runtime the lease is read on the paused clock.
                log.borrow_mut()
                    .push(format!("main alive, {:?} remaining", lease.remaining()));
            }
        }
    });

    for _ in 0..5 {
        sim.step().unwrap();
    }

    match fault {
        Fault::Crash => sim.crash("server"),
        Fault::Bounce => sim.bounce("server"),
    }

    for _ in 0..3 {
        sim.step().unwrap();
    }

    let out = log.borrow().clone();
    out
}

#[test]
fn crash_destructor_sees_the_same_tokio_clock_in_every_run() {
    let a = scenario(Fault::Crash);
    let b = scenario(Fault::Crash);
    assert_eq!(a, b, "same seed, same programs, different execution");
}

#[test]
fn bounce_destructor_sees_the_same_tokio_clock_in_every_run() {
    let a = scenario(Fault::Bounce);
    let b = scenario(Fault::Bounce);
    assert_eq!(a, b, "same seed, same programs, different execution");
}
