//! A rule value that owns a RuleGuard (composite rule) cannot be uninstalled
//! or torn down: the boxed rule is dropped while the thread-local Net is
//! mutably borrowed, and the inner guard's Drop re-borrows it.
use std::time::Duration;

use turmoil_net::fixture::ClientServer;
use turmoil_net::shim::tokio::net::UdpSocket;
use turmoil_net::{rule, Packet, Rule, RuleGuard, Verdict};

/// Installs a helper rule next to itself and keeps the helper alive exactly
/// as long as the composite is installed.
struct Composite {
    _helper: RuleGuard,
}
impl Rule for Composite {
    fn on_packet(&mut self, _: &Packet) -> Verdict {
        Verdict::Pass
    }
}

async fn echo_server() {
    let s = UdpSocket::bind("0.0.0.0:9000").await.unwrap();
    let mut b = [0u8; 8];
    loop {
        let (n, from) = s.recv_from(&mut b).await.unwrap();
        s.send_to(&b[..n], from).await.unwrap();
    }
}

#[test]
fn dropping_the_guard_of_a_composite_rule() {
    let echoed = ClientServer::new()
        .server("server", echo_server())
        .run("client", async {
            let helper = rule(|_: &Packet| Verdict::Drop);
            let g = rule(Composite { _helper: helper });
            drop(g); // should uninstall Composite and, through it, the helper
            let c = UdpSocket::bind("0.0.0.0:0").await.unwrap();
            c.send_to(b"hi", "server:9000").await.unwrap();
            let mut b = [0u8; 8];
            tokio::time::timeout(Duration::from_millis(20), c.recv_from(&mut b))
                .await
                .is_ok()
        });
    assert!(echoed);
}

#[test]
fn forgetting_the_guard_of_a_composite_rule() {
    // Forgotten: stays installed until the Net is dropped — and then the
    // teardown in EnterGuard::drop panics.
    ClientServer::new()
        .server("server", echo_server())
        .run("client", async {
            let helper = rule(|_: &Packet| Verdict::Pass);
            rule(Composite { _helper: helper }).forget();
        });
}
