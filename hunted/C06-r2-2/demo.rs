//! C06 candidate: IPv6 peer address with a non-zero flowinfo (or
//! scope_id). The client indexes the connection under the SocketAddrV6
//! it was given, inbound demux rebuilds the key from (ip, port) with
//! flowinfo 0 / scope 0, so the SYN-ACK never finds the connecting
//! socket: it is answered with RST and connect() times out on a
//! fault-free network.
use std::net::{Ipv6Addr, SocketAddrV6};
use std::time::Duration;

use tokio::io::{AsyncReadExt, AsyncWriteExt};
use turmoil_net::fixture::{self, ClientServer};
use turmoil_net::shim::tokio::net::{TcpListener, TcpStream};

fn run(flowinfo: u32, scope: u32) -> Result<Vec<u8>, String> {
    let sip: Ipv6Addr = "fd00::1".parse().unwrap();
    ClientServer::new()
        .server(std::net::IpAddr::V6(sip), async move {
            let l = TcpListener::bind("[::]:9000").await.unwrap();
            loop {
                let (mut s, _) = l.accept().await.unwrap();
                let _ = s.write_all(b"hello").await;
                let _ = s.shutdown().await;
                let mut rest = Vec::new();
                let _ = s.read_to_end(&mut rest).await;
            }
        })
        .run(std::net::IpAddr::V6("fd00::2".parse().unwrap()), async move {
            let dst = SocketAddrV6::new(sip, 9000, flowinfo, scope);
            tokio::time::timeout(Duration::from_secs(2), async {
                let mut c = TcpStream::connect(dst).await.map_err(|e| format!("connect: {e}"))?;
                let mut got = Vec::new();
                c.read_to_end(&mut got).await.map_err(|e| format!("read: {e}"))?;
                Ok::<_, String>(got)
            })
            .await
            .unwrap_or(Err("stall".into()))
        })
}

fn run_lo(flowinfo: u32) -> Result<Vec<u8>, String> {
    fixture::lo(async move {
        let l = TcpListener::bind("[::1]:9000").await.unwrap();
        let srv = async {
            let (mut s, _) = l.accept().await.map_err(|e| e.to_string())?;
            s.write_all(b"hello").await.map_err(|e| e.to_string())?;
            s.shutdown().await.map_err(|e| e.to_string())?;
            Ok::<_, String>(())
        };
        let cli = async {
            let dst = SocketAddrV6::new(Ipv6Addr::LOCALHOST, 9000, flowinfo, 0);
            let mut c = TcpStream::connect(dst).await.map_err(|e| format!("connect: {e}"))?;
            let mut got = Vec::new();
            c.read_to_end(&mut got).await.map_err(|e| format!("read: {e}"))?;
            Ok::<_, String>(got)
        };
        match tokio::time::timeout(Duration::from_secs(2), async { tokio::join!(srv, cli) }).await {
            Err(_) => Err("stall".to_string()),
            Ok((a, b)) => a.and(b),
        }
    })
}

#[test]
fn control_plain_v6() {
    assert_eq!(run(0, 0).unwrap(), b"hello");
    assert_eq!(run_lo(0).unwrap(), b"hello");
}

#[test]
fn v6_flowinfo_two_hosts() {
    assert_eq!(run(1, 0).unwrap(), b"hello");
}

#[test]
fn v6_flowinfo_loopback() {
    assert_eq!(run_lo(1).unwrap(), b"hello");
}

/// The everyday form of the same input: a link-local peer with a zone
/// (scope id), e.g. `fe80::1%2`.
#[test]
fn v6_link_local_scope_id_two_hosts() {
    let sip: Ipv6Addr = "fe80::1".parse().unwrap();
    let r = ClientServer::new()
        .server(std::net::IpAddr::V6(sip), async move {
            let l = TcpListener::bind("[::]:9000").await.unwrap();
            loop {
                let (mut s, _) = l.accept().await.unwrap();
                let _ = s.write_all(b"hello").await;
                let _ = s.shutdown().await;
            }
        })
        .run(std::net::IpAddr::V6("fe80::2".parse().unwrap()), async move {
            let dst = SocketAddrV6::new(sip, 9000, 0, 2);
            let mut c = TcpStream::connect(dst).await.map_err(|e| format!("connect: {e}"))?;
            let mut got = Vec::new();
            c.read_to_end(&mut got).await.map_err(|e| format!("read: {e}"))?;
            Ok::<_, String>(got)
        });
    assert_eq!(r.unwrap(), b"hello");
}
