//! H1/H2: IPv6 destinations / peers that carry a non-zero scope id or flowinfo.
use std::net::{Ipv6Addr, SocketAddr, SocketAddrV6};
use std::time::Duration;

use tokio::time::timeout;
use turmoil::{lookup, net::UdpSocket, Builder, IpVersion, Result};

const PORT: u16 = 9000;

fn v6(ip: std::net::IpAddr) -> Ipv6Addr {
    match ip {
        std::net::IpAddr::V6(a) => a,
        _ => panic!("v6 expected"),
    }
}

/// A current member of an IPv6 group must get a datagram sent to the group,
/// whatever scope id the sender put on the link-local group address.
#[test]
fn multicast_scoped_group_address() -> Result {
    let group: Ipv6Addr = "ff02::1234".parse().unwrap();
    let mut sim = Builder::new()
        .ip_version(IpVersion::V6)
        .min_message_latency(Duration::from_millis(1))
        .max_message_latency(Duration::from_millis(1))
        .build();

    sim.client("member", async move {
        let s = UdpSocket::bind((Ipv6Addr::UNSPECIFIED, PORT)).await?;
        s.join_multicast_v6(&group, 0)?;
        let mut buf = [0u8; 16];
        let mut got = vec![];
        while let Ok(r) = timeout(Duration::from_millis(200), s.recv_from(&mut buf)).await {
            let (n, _) = r?;
            got.push(buf[..n].to_vec());
        }
        assert_eq!(got, vec![b"plain".to_vec(), b"scoped".to_vec()]);
        Ok(())
    });

    sim.client("sender", async move {
        tokio::time::sleep(Duration::from_millis(10)).await;
        let s = UdpSocket::bind((Ipv6Addr::UNSPECIFIED, 0)).await?;
        s.send_to(b"plain", SocketAddr::V6(SocketAddrV6::new(group, PORT, 0, 0)))
            .await?;
        tokio::time::sleep(Duration::from_millis(10)).await;
        s.send_to(b"scoped", SocketAddr::V6(SocketAddrV6::new(group, PORT, 0, 1)))
            .await?;
        Ok(())
    });

    sim.run()
}

/// Connected-peer filter with a scoped link-local peer address.
#[test]
fn connect_scoped_peer() -> Result {
    let mut sim = Builder::new()
        .ip_version(IpVersion::V6)
        .min_message_latency(Duration::from_millis(1))
        .max_message_latency(Duration::from_millis(1))
        .build();

    sim.client("rx", async move {
        let s = UdpSocket::bind((Ipv6Addr::UNSPECIFIED, PORT)).await?;
        let peer = v6(lookup("tx"));
        s.connect(SocketAddr::V6(SocketAddrV6::new(peer, PORT, 0, 1)))
            .await?;
        let mut buf = [0u8; 16];
        let r = timeout(Duration::from_millis(200), s.recv_from(&mut buf)).await;
        assert!(r.is_ok(), "datagram of the connected peer was dropped");
        Ok(())
    });

    sim.client("tx", async move {
        tokio::time::sleep(Duration::from_millis(10)).await;
        let s = UdpSocket::bind((Ipv6Addr::UNSPECIFIED, PORT)).await?;
        s.send_to(b"hello", (lookup("rx"), PORT)).await?;
        Ok(())
    });

    sim.run()
}

/// Unicast to a wildcard / localhost bound socket with flowinfo set.
#[test]
fn unicast_flowinfo() -> Result {
    let mut sim = Builder::new().ip_version(IpVersion::V6).build();

    sim.client("a", async move {
        let lo = UdpSocket::bind((Ipv6Addr::LOCALHOST, PORT)).await?;
        let s = UdpSocket::bind((Ipv6Addr::UNSPECIFIED, 0)).await?;
        s.send_to(
            b"flow",
            SocketAddr::V6(SocketAddrV6::new(Ipv6Addr::LOCALHOST, PORT, 7, 0)),
        )
        .await?;
        let mut buf = [0u8; 16];
        let r = timeout(Duration::from_millis(200), lo.recv_from(&mut buf)).await;
        assert!(r.is_ok(), "datagram to [::1] with flowinfo was dropped");
        Ok(())
    });

    sim.run()
}
