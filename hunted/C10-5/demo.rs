//! C10 hunt 5: a regular file renamed away from a name that used to be a
//! (flushed) directory is reported as a directory as well: read_dir succeeds
//! on it and directories can be created below it.
#![cfg(feature = "unstable-fs")]
use turmoil::fs::shim::std::fs::{
    create_dir, metadata, read_dir, remove_dir, rename, sync_dir, write,
};
use turmoil::{Builder, Result};

#[test]
fn file_renamed_from_former_directory_name() -> Result {
    let mut sim = Builder::new().build();
    sim.client("c", async {
        create_dir("/d")?;
        sync_dir("/")?;
        remove_dir("/d")?;
        write("/d", b"x")?; // the name is now a regular file
        rename("/d", "/x")?; // plain file rename
        assert!(metadata("/x")?.is_file());
        assert!(read_dir("/x").is_err(), "read_dir on a regular file succeeded");
        assert!(create_dir("/x/y").is_err(), "mkdir below a regular file succeeded");
        Ok(())
    });
    sim.run()
}
