//! C18 hunt #1: a CQE becomes visible before the op's simulated latency has
//! elapsed when the SQE is submitted in the middle of a tick (tick_duration
//! larger than the 1 ms timer granularity).
//!
//! `submit()` stamps the op with `now + latency`, where `now` is the host
//! clock *as of the start of the current tick*. Software that has already
//! slept part of the tick submits "in the past": the completion matures at
//! the next tick boundary although only a fraction of the latency elapsed
//! on the host's own (tokio) clock.

use std::os::fd::AsRawFd;
use std::time::Duration;
use turmoil::fs::shim::std::fs::{create_dir_all, OpenOptions};
use turmoil::io_uring::{opcode, types, IoUring};
use turmoil::{Builder, Result};

#[test]
fn cqe_visible_before_latency_elapsed_when_submitted_mid_tick() -> Result {
    const LATENCY: Duration = Duration::from_millis(5);

    let mut builder = Builder::new();
    builder.tick_duration(Duration::from_millis(10));
    builder
        .fs()
        .io_latency()
        .min_latency(LATENCY)
        .max_latency(LATENCY);
    let mut sim = builder.build();

    sim.client("c", async {
        create_dir_all("/d")?;
        let file = OpenOptions::new()
            .read(true)
            .write(true)
            .create(true)
            .open("/d/f")?;
        let fd = types::Fd(file.as_raw_fd());
        let mut ring = IoUring::new(4)?;

        // Move 9 ms into the 10 ms tick.
        tokio::time::sleep(Duration::from_millis(9)).await;

        let payload = b"payload".to_vec();
        let w = opcode::Write::new(fd, payload.as_ptr(), payload.len() as u32)
            .build()
            .user_data(1);
        unsafe { ring.submission().push(&w).expect("push") };
        let submitted_at = tokio::time::Instant::now();
        ring.submit()?;

        // Poll the CQ every millisecond of simulated time.
        let visible_after = loop {
            let got = {
                let mut cq = ring.completion();
                cq.sync();
                cq.next()
            };
            if let Some(cqe) = got {
                assert_eq!(cqe.user_data(), 1);
                assert_eq!(cqe.result(), payload.len() as i32);
                break submitted_at.elapsed();
            }
            tokio::time::sleep(Duration::from_millis(1)).await;
        };

        assert!(
            visible_after >= LATENCY,
            "CQE became visible {visible_after:?} after submit(), configured latency is {LATENCY:?}"
        );
        drop(file);
        Ok(())
    });
    sim.run()
}
