//! C13 hunt #4: a connection both ends closed gracefully keeps its
//! 4-tuple in the server's connection index for as long as the server
//! application merely HOLDS the (fully closed) TcpStream value, and
//! that stale entry swallows the SYN of a later connection that reuses
//! the 4-tuple after the client's ephemeral ports wrapped around.
//!
//! conn #1: client connects (port 49152), drops -> FIN; server reads
//! EOF, calls shutdown() -> FIN; both FINs ACKed: TCP state CLOSED on
//! both ends, the client socket is reaped. The server keeps the stream
//! object around (e.g. in a connection registry).
//! conns #2..#16384: plain sequential connect/close, all fine; the
//! client's ephemeral cursor wraps.
//! conn #16385: client port is 49152 again. The listener is there and
//! its backlog is empty, yet the SYN is demuxed to the CLOSED TCB,
//! ignored, and connect() times out.

use std::io::ErrorKind;
use std::time::Duration;

use tokio::io::{AsyncReadExt, AsyncWriteExt};
use turmoil_net::fixture::ClientServer;
use turmoil_net::shim::tokio::net::{TcpListener, TcpStream};

const EPHEMERAL: usize = 65535 - 49152 + 1;

#[test]
fn closed_but_held_stream_swallows_reused_four_tuple() {
    ClientServer::new()
        .server("server", async move {
            let l = TcpListener::bind("0.0.0.0:9000").await.unwrap();
            let mut registry = Vec::new();
            // conn #1: full graceful close, then keep the handle.
            let (mut s, _) = l.accept().await.unwrap();
            let mut buf = [0u8; 8];
            assert_eq!(s.read(&mut buf).await.unwrap(), 0, "EOF from client");
            s.shutdown().await.unwrap();
            registry.push(s);
            // Everything else: accept, see EOF, drop.
            loop {
                let (mut s, _) = l.accept().await.unwrap();
                let _ = s.read(&mut buf).await;
                drop(s);
            }
        })
        .run("client", async move {
            let c = TcpStream::connect("server:9000").await.unwrap();
            let first_port = c.local_addr().unwrap().port();
            drop(c);
            // Let the close handshake finish completely.
            tokio::time::sleep(Duration::from_millis(50)).await;

            for i in 1..EPHEMERAL {
                let c = TcpStream::connect("server:9000")
                    .await
                    .unwrap_or_else(|e| panic!("sequential connect #{i} failed: {e:?}"));
                assert_ne!(c.local_addr().unwrap().port(), first_port);
                drop(c);
            }
            tokio::time::sleep(Duration::from_millis(50)).await;

            // Ports wrapped: this one reuses conn #1's 4-tuple.
            match TcpStream::connect("server:9000").await {
                Ok(c) => assert_eq!(c.local_addr().unwrap().port(), first_port),
                Err(e) => {
                    assert_eq!(e.kind(), ErrorKind::TimedOut);
                    panic!(
                        "connect on the reused 4-tuple (client port {first_port}) failed with {e:?}: listener reachable, backlog empty, the earlier connection on this 4-tuple was closed by both ends long ago"
                    );
                }
            }
        });
}
